"""C13 / C15 / C16 — status model (spec: ScpiStatus / MCStatus / TraceStatus)."""
import json, os
from .common import *


def tla_set(xs):
    def one(x):
        if isinstance(x, bool):
            return "TRUE" if x else "FALSE"
        if isinstance(x, str):
            return '"%s"' % x
        if isinstance(x, dict):
            return "[" + ", ".join(f"{k} |-> {one(v)}" for k, v in x.items()) + "]"
        return str(x)
    return "{" + ", ".join(one(x) for x in xs) + "}"


DEFAULTS = dict(Ops0=[], RegOps=[], RegWrites=[], Regs=["OPER"], RegVals=[0], EseVals=[], SreVals=[], SreInitVals=[],
                FailErrs=[], BadKinds=[], Mavs=[False], Cap=0, Tst=0, MaxQ=0)


def mc_cfg(c, emit, check):
    d = dict(DEFAULTS)
    d.update(c)
    lines = ["SPECIFICATION Spec", "CONSTANTS"]
    defs = []
    for k, v in d.items():
        if isinstance(v, list):
            lines.append(f"  {k} <- C_{k}")
            defs.append(f"C_{k} == {tla_set(v)}")
        else:
            lines.append(f"  {k} <- C_{k}")
            defs.append(f"C_{k} == {v}")
    lines.append(f"  Emit = {'TRUE' if emit else 'FALSE'}")
    lines.append("CONSTRAINT Bound")
    if check:
        lines.append("INVARIANTS TypeOK LatchInv StbShape")
        lines.append("PROPERTIES QueueStep")
    return "\n".join(lines) + "\n", defs


def run_mc(name, c, emit, check, workers=8, on_line=None, timeout=1800, raw_out=None):
    """MCStatus needs set-valued constants: generate a wrapper module with the definitions."""
    cfg, defs = mc_cfg(c, emit, check)
    mod = "MCStatus_" + name.replace("-", "_")
    text = f"---- MODULE {mod} ----\nEXTENDS MCStatus\n" + "\n".join(defs) + "\n====\n"
    return tlc(mod, cfg, name, workers=workers, on_line=on_line, coverage=check, timeout=timeout, gen_text=text, raw_out=raw_out)


def bits(idx):
    """all sums of subsets of the given bit indices"""
    out = [0]
    for b in idx:
        out += [x + (1 << b) for x in out]
    return sorted(out)


def configs(prop, tier):
    th = tier == "thorough"
    if prop == "C15":
        base = dict(Ops0=["cls", "pres"], RegOps=["evq", "condq", "enabq", "ptrq", "ntrq"],
                    RegWrites=["enab", "ptr", "ntr", "setcond"], RegVals=bits([0, 15]))
        cs = [("oper", dict(base, Regs=["OPER"])), ("ques", dict(base, Regs=["QUES"]))]
        if th:
            # three model bits (two ordinary + bit 15); replayed on four rotations instead of fifteen
            cs.append(("oper3", dict(base, Regs=["OPER"], RegVals=bits([0, 1, 15]))))
            cs.append(("ques3", dict(base, Regs=["QUES"], RegVals=bits([0, 1, 15]))))
        # full-width in-range writes on both register sets (out-of-range writes are judged in the trace direction,
        # where the error the library chooses is bound from the observation instead of being fixed by the model)
        cs.append(("range", dict(Ops0=["errq"], RegOps=["enabq", "ptrq", "ntrq"], RegWrites=["enab", "ptr", "ntr"],
                                 Regs=["OPER", "QUES"], RegVals=[5, 65535, 32767], MaxQ=1)))
        return cs, list(range(15))
    if prop == "C16":
        sre_all = bits([2, 3, 4, 5, 7])
        full = dict(Ops0=["cls", "eseq", "esrq", "opc", "opcq", "rst", "wai", "sreq", "stbq", "tstq", "errq"],
                    RegOps=["evq"], RegWrites=["enab", "setcond"], RegVals=[0, 1],
                    EseVals=[0, 1, 32, 33], SreVals=[0, 255], SreInitVals=sre_all,
                    FailErrs=[{"code": -113, "ext": 0}], Mavs=[False, True], MaxQ=1)
        # quick: the commands whose effect depends on the state; state-independent ones go to "misc"
        slim = dict(full, Ops0=["cls", "esrq", "opc", "stbq", "errq"], EseVals=[0, 33])
        base = full if th else slim
        cs = [("oper", dict(base, Regs=["OPER"])), ("ques", dict(base, Regs=["QUES"], Tst=-330))]
        cs.append(("misc", dict(Ops0=["eseq", "sreq", "opc", "opcq", "rst", "wai", "tstq", "stbq", "esrq", "cls", "idnq", "versq"], EseVals=[0, 1, 32, 33],
                                SreVals=[0, 32, 255], SreInitVals=[0, 32, 255], FailErrs=[{"code": -113, "ext": 0}],
                                Regs=["OPER", "QUES"], RegWrites=["setcond", "enab"], RegVals=[0, 1], RegOps=["evq"], Mavs=[False, True], MaxQ=1, Tst=-330)))
        cs.append(("writes", dict(Ops0=["eseq", "sreq", "esrq", "errq", "cls"], EseVals=[0, 1, 128, 255, 170],
                                  SreVals=[0, 64, 255, 85], SreInitVals=[0, 64, 255, 85], MaxQ=1)))
        # bit 15 never takes part in a summary (reported values have bit 15 clear)
        cs.append(("bit15", dict(Ops0=["stbq", "cls"], RegOps=["condq", "enabq"], RegWrites=["enab", "setcond"], Regs=["OPER", "QUES"],
                                 RegVals=[0, 32768, 32769], SreVals=[255], SreInitVals=[255], Mavs=[False])))
        if th:
            cs.append(("both", dict(full, Regs=["OPER", "QUES"], EseVals=[0, 33], SreInitVals=bits([3, 7, 4]), SreVals=[0])))
        return cs, [0]
    if prop == "C13":
        errs = [{"code": -100, "ext": 0}, {"code": -200, "ext": 0}, {"code": -300, "ext": 1}, {"code": -400, "ext": 0},
                {"code": 7, "ext": 0}, {"code": -800, "ext": 2}, {"code": -190, "ext": 0}, {"code": -450, "ext": 0}]   # the last two have no standard variant: custom errors in a non-device class
        base = dict(Ops0=["cls", "esrq", "opc", "opcq", "errq", "countq", "allq", "nop", "nopq", "stbq"], FailErrs=errs,
                    BadKinds=["undef", "p108", "p109", "range"], MaxQ=2)
        cs = [("vec", dict(base, Cap=0)), ("arr2", dict(base, Cap=2, MaxQ=2))]
        if th:
            cs.append(("deep", dict(base, Cap=0, MaxQ=3)))
        return cs, [0]
    raise ToolError(prop)


def state_diff(a, b):
    """names of the state components that differ (registers down to the field)"""
    out = []
    for k in ("esr", "ese", "sre", "queue"):
        if a.get(k) != b.get(k):
            out.append(k)
    for r in ("oper", "ques"):
        for f in ("cond", "event", "enable", "ptr", "ntr"):
            if a.get(r, {}).get(f) != b.get(r, {}).get(f):
                out.append(f"reg.{f}")
    return sorted(set(out))


def closest(allowed, got_ret, got_resps, got_post):
    best = None
    for o in allowed:
        d = state_diff(o["post"], got_post)
        if o["ret"] != got_ret:
            d = d + ["ret"]
        elif got_ret["code"] == 0 and o["resps"] != got_resps:
            d = d + ["resp"]
        if best is None or len(d) < len(best):
            best = d
    return best if best is not None else ["no-outcome-allowed"]


def summarize_edge(e):
    return {"pre": e["pre"], "u": {k: v for k, v in e["u"].items() if v not in ("", 0)}, "mav": e["mav"],
            "ret": e["ret"], "resps": e["resps"], "post": e["post"]}


def run(chk, tier, seed, prop=None):
    prop = prop or chk.prop
    th = tier == "thorough"
    cs, rots = configs(prop, tier)
    wd = workdir(f"{prop}-status")
    total_groups = 0
    for name, c in cs:
        # design level: invariants of the projection (no emission)
        res = run_mc(f"{prop}-mc-{name}", c, emit=False, check=True)
        require_clean(res, f"MCStatus[{name}] invariants")
        chk.add_tlc(f"MCStatus[{name}]", res, "TypeOK, LatchInv (declarative latch), StbShape, QueueStep on the projection")
        for act in ("Message",):
            if res.coverage and res.coverage.get(act, (1, 1))[0] == 0:
                raise ToolError(f"vacuity: {act} never taken in MCStatus[{name}]")
        # spec -> impl: all edges executed on the real device
        ep = os.path.join(wd, f"edges-{name}.ndjson")
        res = run_mc(f"{prop}-edges-{name}", c, emit=True, check=False, raw_out=ep)
        require_clean(res, f"MCStatus[{name}] emission")
        chk.add_tlc(f"MCStatus[{name}] edges", res, "edge emission")
        rlist = rots if name in ("oper", "ques") else ([0, 4, 9, 13] if name in ("oper3", "ques3") else [0])
        out, _, _ = harness(["status-edges", "--edges", ep, "--rots", ",".join(map(str, rlist))])
        summary = None
        for line in out.splitlines():
            v = json.loads(line)
            if v.get("summary"):
                summary = v
                continue
            e = v["edge"]
            u = e["u"]
            got = v.get("got", {})
            sig = {"engine": "status-edge", "op": u["op"], "kind": v["bad"]}
            if v["bad"] == "mismatch":
                sig["diff"] = ",".join(closest([e], got["ret"], got["resps"], got["post"]))
                if u["op"] == "stbq":
                    sig["mav"] = e["mav"]
            chk.violation(sig, f"{u['op']} {u.get('r','')} v={u.get('v')} (message {v.get('text')!r}) from {json.dumps(e['pre'])}: "
                               f"spec allows ret={e['ret']} resps={e['resps']} post={json.dumps(e['post'])} ({v.get('alts',1)} alternative(s)); "
                               f"implementation gave {json.dumps(got) if got else v.get('msg')}", v)
        if not summary:
            raise ToolError("status-edges produced no summary")
        # states reachable only through an alternative the implementation does not take (e.g. *OPC without
        # queueing -800) stay unreached; that is expected, but a mostly-unreached model would be vacuous
        if summary["bad"] == 0 and summary["executed"] * 2 < summary["groups"]:
            raise ToolError(f"edge replay mostly unreached: {summary}")
        chk.cov["engines"][f"MCStatus[{name}] edges"]["replay"] = {k: summary[k] for k in ("groups", "executed", "unreached")}
        chk.count(evaluations=summary["executed"], traces=summary["executed"])
        chk.cov["distinct_nontrivial"] += summary["nontrivial"]
        for e in summary["samples"][:2]:
            chk.sample({"edge": summarize_edge(e)})
        total_groups += summary["groups"]
        os.remove(ep)
    # impl -> spec: random histories with full-width values
    msgs = {"quick": 1200, "thorough": 20000}[tier]
    tp = os.path.join(wd, "trace.ndjson")
    harness(["status-trace", "--seed", seed, "--msgs", msgs, "--mix", prop.lower(), "--out", tp])
    rows = read_ndjson(tp)
    for i, r in enumerate(rows):
        if r["ev"] == "panic":
            chk.violation({"engine": "status-trace", "kind": "panic"}, f"panic during {r.get('units') or r.get('u')}: {r['msg']}", r)
    rows_np = [r for r in rows if r["ev"] != "panic"]
    if len(rows_np) != len(rows):
        write_ndjson(tp, rows_np)
        rows = rows_np
    bad = []
    res = tlc("TraceStatus", "SPECIFICATION TraceSpec\nPOSTCONDITION Complete\n", f"{prop}-trace", workers=1,
              env={"TRACE": tp}, on_line=lambda v: bad.append(v), timeout=1800)
    require_clean(res, "TraceStatus")
    chk.add_tlc("TraceStatus", res, f"{len(rows)} recorded messages / device events on 4 devices (Vec and ArrayVec queues)")
    if res.distinct != len(rows) + 1:
        raise ToolError(f"trace not fully consumed: {res.distinct} states for {len(rows)} lines")
    for b in bad:
        if isinstance(b, list) and b and b[0] == "BAD":
            ev = rows[b[1] - 1]
            if ev["ev"] == "cap":
                chk.violation({"engine": "status-cap", "fits": ev["cap"] >= ev["len"], "code": ev["code"]},
                              f"message {ev['text']!r} on a {ev['cap']}-byte response buffer (full response {ev['len']} bytes): returned {ev['code']}, identical to the growable run: {ev['same']}, within capacity: {ev['within']}",
                              {"line": b[1], "event": ev})
            elif ev["ev"] == "plainstb":
                chk.violation({"engine": "status-plain", "esb": bool(ev["esr"] & ev["ese"]), "mav": ev["mav"]},
                              f"plain IEEE 488.2 device (provided IEEE4882::stb): *STB? with ESR={ev['esr']} ESE={ev['ese']} SRE={ev['sre']} mav={ev['mav']} answered {ev['stb']} (registers unchanged: {ev['same']}); allowed {b[2]['allowed']}",
                              {"line": b[1], "event": ev})
            elif ev["ev"] == "msg":
                d = closest(b[2]["allowed"], ev["ret"], ev["resps"], ev["post"])
                sig = {"engine": "status-trace", "diff": ",".join(d)}
                chk.violation(sig, f"message {ev['text']!r} (mav={ev['mav']}) returned {ev['ret']} resps={ev['resps']} post={json.dumps(ev['post'])}: not allowed by ScpiStatus",
                              {"line": b[1], "event": ev})
            else:
                chk.violation({"engine": "status-trace", "diff": ",".join(closest(b[2]["allowed"], {"code": 0, "ext": 0}, [], ev["post"]))}, f"device event {ev['u']} -> {json.dumps(ev['post'])} not allowed", {"line": b[1], "event": ev})
    chk.count(evaluations=len(rows), traces=4)
    for r in rows[3:6]:
        chk.sample({"trace_event": {k: r[k] for k in r if k != "post"}})
    chk.cov["exhaustive"] = True
    chk.cov["rule"] = (f"edges: every reachable (state, command[, mav]) of the MCStatus projections {[n for n, _ in cs]} executed on the real device "
                       f"(bit-position rotations {rots}); non-trivial = edges that change state or produce a response; "
                       f"traces: {msgs} seeded random messages (1-3 units, full 8/16-bit values) per device")
    chk.assumptions += ["device wired as examples/minimal_scpi.rs (handle_error -> push_error, stb -> scpi_stb, cls -> scpi_cls, opc -> scpi_opc)",
                        "exhaustive part bounded to the register bits / values listed in coverage.engines; full-width values only in recorded traces",
                        "STB bits 3/7 are required only where condition&enable and event&enable agree (the property does not choose)",
                        "C16 also reads *STB? on a plain IEEE 488.2 device that keeps the provided IEEE4882::stb() (672 register/mav combinations)"]


def cap_trace(chk, tier, seed):
    """C11 for the mandated commands: recorded status histories in which messages are also run, from the same state,
    on fixed-capacity response buffers around the full response length; only the capacity rows are reported here."""
    wd = workdir("C11-status")
    tp = os.path.join(wd, "trace.ndjson")
    harness(["status-trace", "--seed", seed, "--msgs", 1500 if tier == "quick" else 12000, "--mix", "c13", "--out", tp])
    rows = [r for r in read_ndjson(tp) if r["ev"] != "panic" or chk.violation({"engine": "status-cap", "kind": "panic"}, f"panic: {r}", r)]
    rows = [r for r in rows if r["ev"] != "panic"]
    write_ndjson(tp, rows)
    bad = []
    res = tlc("TraceStatus", "SPECIFICATION TraceSpec\nPOSTCONDITION Complete\n", "C11-trace", workers=1, env={"TRACE": tp}, on_line=lambda v: bad.append(v), timeout=1800)
    require_clean(res, "TraceStatus")
    ncap = sum(1 for r in rows if r["ev"] == "cap")
    chk.add_tlc("TraceStatus(capacity rows)", res, f"{ncap} executions of mandated-command messages on fixed-capacity buffers judged (fits => identical to the growable run, else -225)")
    if ncap < 50:
        raise ToolError("vacuity: too few capacity rows recorded")
    for b in bad:
        if isinstance(b, list) and b and b[0] == "BAD" and rows[b[1] - 1]["ev"] == "cap":
            ev = rows[b[1] - 1]
            chk.violation({"engine": "status-cap", "fits": ev["cap"] >= ev["len"], "code": ev["code"]},
                          f"message {ev['text']!r} on a {ev['cap']}-byte response buffer (full response {ev['len']} bytes): returned {ev['code']}, identical to the growable run: {ev['same']}, within capacity: {ev['within']}",
                          {"line": b[1], "event": ev})
    chk.count(evaluations=ncap, traces=ncap)
