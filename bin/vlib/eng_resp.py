"""C09 / C20 — response data and derived enums (spec: Resp / RowsResp)."""
import json, os
import concurrent.futures as cf
from .common import *
from . import rows as R


def txt(b):
    return bytes(b).decode("latin1")


def judge_sharded(chk, prop, rows, wd, shards):
    n = len(rows)
    k = max(1, min(shards, n // 3000))
    parts = []
    for s in range(k):
        sp = os.path.join(wd, f"rows-{s}.ndjson")
        write_ndjson(sp, rows[s::k])
        parts.append((s, sp))

    def one(a):
        s, sp = a
        bad, res, cnt = R.judge("RowsResp", sp, f"{prop}-rows-{s}", workers=3, timeout=3000)
        return s, bad, res, cnt
    bad_idx = []
    with cf.ThreadPoolExecutor(max_workers=k) as ex:
        for s, bad, res, cnt in ex.map(one, parts):
            chk.add_tlc(f"RowsResp[{s}]", res, f"{cnt} rows judged")
            bad_idx += [s + k * i for i, _ in bad]
    return sorted(bad_idx)


def describe(r):
    t = r["t"]
    text = txt(r.get("text", []))[:80]
    if t == "int":
        v = ("-" if r["neg"] else "") + ("".join(map(str, r["d"])) or "0")
        return {"engine": "resp", "t": "int", "form": r["form"], "why": "rep-only" if False else "text"}, f"{r['ty']} {v} formatted ({r['form']}) as {text!r} (library reparse ok: {r['rep']})"
    if t == "flt":
        return {"engine": "resp", "t": "flt", "w": r["w"], "cls": r["obs"]["cls"]}, f"f{r['w']} bits {r['bits']} ({r['obs']['cls']}) formatted as {text!r} (library reparse ok: {r['rep']})"
    if t in ("unitfail", "unitok"):
        return {"engine": "resp", "t": t}, f"response unit with an unformattable datum ({r.get('kind')} at position {r.get('pos')}) finished with error={r['finerr']}, buffer {text!r}"
    if t == "strrep":
        return {"engine": "resp", "t": "strrep", "hasquote": bool(r.get("hasquote"))}, f"string value {txt(r['val'])[:60]!r} emitted as {text!r}: the library's own parser does not return the original value"
    if t in ("str", "blk", "chr", "expr"):
        return {"engine": "resp", "t": t, "hasquote": bool(r.get("hasquote")), "len": "0" if not r["val"] else ("1-9" if len(r["val"]) < 10 else ">=10")}, \
               f"{t} value {txt(r['val'])[:60]!r} ({len(r['val'])} bytes) formatted as {text!r} (library reparse ok: {r['rep']})"
    if t == "list":
        return {"engine": "resp", "t": "list"}, f"list {r['vals']} formatted as {text!r}"
    if t == "err":
        return {"engine": "resp", "t": "err", "ext": bool(r["ext"])}, f"error {r['code']} formatted as {text!r}"
    if t == "enum":
        return {"engine": "resp", "t": "enum", "suffixed": txt(r["mn"])[-1:].isdigit()}, f"enum {r['enum']} variant {txt(r['mn'])!r} formatted as {text!r} (selects same variant: {r['rep']}, reports own mnemonic: {r['own']})"
    if t == "from":
        return {"engine": "resp", "t": "from", "kind": r["kind"], "code": r["code"]}, \
               f"enum {r['enum']} {[txt(m) for m in r['mns']]}: {r['kind']} element {txt(r['cand'])!r} -> from_mnemonic={r['from']} try_from code={r['code']} variant={r['got']}"
    return {"engine": "resp", "t": t}, str(r)[:300]


def run(chk, tier, seed):
    prop = chk.prop
    wd = workdir(f"{prop}-resp")
    rp = os.path.join(wd, "rows.ndjson")
    harness([f"resp-rows-{prop.lower()}", "--seed", seed, "--tier", tier, "--out", rp])
    rows = read_ndjson(rp)
    bad = judge_sharded(chk, prop, rows, wd, 8)
    for i in bad:
        sig, what = describe(rows[i])
        r = rows[i]
        chk.violation(sig, what + ": not what Resp.tla allows", r)
    if prop == "C09":
        # harness-only exploration: f32 bit patterns formatted and read back with the library's own parser
        th = tier == "thorough"
        out, _, _ = harness(["resp-f32-sweep", "--threads", 14, "--stride", 1 if th else 1021], profile="release" if th else "debug", timeout=3000)
        sw = json.loads(out.strip().splitlines()[-1])
        chk.cov["f32_sweep"] = {"patterns": sw["patterns"], "exhaustive": bool(th), "bad": sw["bad"],
                                "what": "every f32 bit pattern (thorough) / every 1021st (quick): format, read back with the library's parser, compare bits; NaN/inf sentinels"}
        for ex in sw["examples"]:
            chk.violation({"engine": "f32-sweep"}, f"f32 bits {ex['bits']} formatted as {ex['text']!r} does not read back to the same value", ex)
        chk.count(evaluations=sw["patterns"])
    chk.count(evaluations=len(rows), traces=len(rows))
    chk.cov["by_kind"] = {}
    for r in rows:
        chk.cov["by_kind"][r["t"]] = chk.cov["by_kind"].get(r["t"], 0) + 1
    chk.cov["distinct_nontrivial"] = len({json.dumps([r["t"], r.get("text"), r.get("cand"), r.get("enum")]) for r in rows})
    for r in (rows[3], rows[len(rows) // 2], rows[-1]):
        chk.sample({k: (txt(v) if k in ("text", "val", "mn", "cand") else v) for k, v in r.items() if k not in ("obs", "others", "mns")})
    if prop == "C09":
        chk.cov["rule"] = ("all u8/i8 values and (strided in quick, all in thorough) u16/i16 values in decimal and, if non-negative, #H/#Q/#B form; 2^k+-1 and random 32/64-bit integers; f32: every exponent x 6 mantissa patterns, powers of ten, specials, random bit patterns; f64 likewise (strided exponents in quick); "
                           "all strings of length <= 3 over {a \" , ;}, every ASCII byte, random strings; blocks of length 0..10000 around every digit-count boundary; character/expression data; Vec/ArrayVec lists of 1..5; every standard error with and without extended text and customs; every variant of 9 derived enums. "
                           "Each text is decoded by Resp.tla and must denote the value; `rep' = the library's own parser returns the value")
        chk.assumptions += ["float syntax is judged against NRf (488.2 'forgiving' numeric syntax), not the stricter NR2/NR3 response forms; NaN/inf must be exactly the SCPI sentinels",
                            "the sweep over f32 bit patterns (all 2^32 in thorough) is harness-only exploration through the library's own parser; TLC judges the structured + random rows"]
    else:
        chk.cov["rule"] = ("9 derived enums (unit and single-field variants, suffix siblings CHANnel1/2/10, OUTPut/OUTPut2, T1/T2/T10, nested short forms X/XY/XYZa): every prefix x case x 8 suffix spellings of every mnemonic, every single deletion/replacement/insertion, random candidates; "
                           "from_mnemonic and TryFrom<Token> must select exactly the variant Mnemonic!Matches designates (-224 for none, -104 for the six other element types); each variant reports its own mnemonic and its response text selects it again")
        chk.assumptions += ["the enum family is fixed at compile time (derive macro); pairwise non-matching is a premise of the property"]
