"""Generic B2 engine: harness-recorded observation rows judged by a Rows*.tla module."""
import json, os
from .common import *

CFG = "SPECIFICATION Spec\nINVARIANT Judge\n"


def judge(module, rows_path, name, workers=8, timeout=1800, env=None):
    """Returns (bad_row_indices(0-based) with optional detail, TlcResult, nrows)."""
    nrows = sum(1 for _ in open(rows_path))
    bad = []
    e = {"ROWS": rows_path}
    if env:
        e.update(env)
    res = tlc(module, CFG, name, workers=workers, env=e, on_line=lambda v: bad.append(v), timeout=timeout)
    require_clean(res, module)
    if res.distinct != nrows:
        raise ToolError(f"{module}: judged {res.distinct} rows of {nrows}")
    out = []
    for b in bad:
        if isinstance(b, list) and b and b[0] == "BAD":
            out.append((b[1] - 1, b[2:] if len(b) > 2 else None))
    return out, res, nrows
