"""Shared orchestration: build the harness, run TLC, collect verdicts, write evidence.

Exit-code policy (DESIGN 2.4-6): 0 = property held on everything explored; 1 = a VIOLATION line
with a replay file was printed; 2 = tool failure (build error, TLC crash, timeout).
"""
import json, os, re, shutil, subprocess, sys, time, hashlib

ROOT = os.path.dirname(os.path.dirname(os.path.dirname(os.path.abspath(__file__))))
SPEC = os.path.join(ROOT, "spec")
WORK = os.path.join(ROOT, "work")
HARNESS_DIR = os.path.join(ROOT, "harness")
OUT = os.path.join(ROOT, "out", "replay")
EVID = os.path.join(ROOT, "evidence")
TLA_JAR = "/opt/veriftools/tla/tla2tools.jar:/opt/veriftools/tla/CommunityModules-deps.jar"


class ToolError(Exception):
    pass


def log(*a):
    print(*a, file=sys.stderr, flush=True)


def workdir(name):
    d = os.path.join(WORK, name)
    shutil.rmtree(d, ignore_errors=True)
    os.makedirs(d, exist_ok=True)
    return d


_built = {}


def build(profile="debug"):
    """cargo build of the harness against /repo's current working tree."""
    if profile in _built:
        return _built[profile]
    cmd = ["cargo", "build", "--offline", "--quiet"]
    if profile == "release":
        cmd.append("--release")
    env = dict(os.environ, CARGO_NET_OFFLINE="true", RUSTFLAGS=os.environ.get("RUSTFLAGS", "") + " -Awarnings")
    t = time.time()
    p = subprocess.run(cmd, cwd=HARNESS_DIR, env=env, stdout=subprocess.PIPE, stderr=subprocess.STDOUT, text=True)
    if p.returncode != 0:
        log(p.stdout[-4000:])
        raise ToolError("cargo build failed")
    log(f"[build {profile}] {time.time()-t:.1f}s")
    path = os.path.join(HARNESS_DIR, "target", profile, "scpi-verif")
    _built[profile] = path
    return path


def harness(args, profile="debug", stdin_path=None, timeout=3600, check=True):
    exe = build(profile)
    t = time.time()
    fin = open(stdin_path, "rb") if stdin_path else subprocess.DEVNULL
    try:
        p = subprocess.run([exe] + [str(a) for a in args], stdin=fin, stdout=subprocess.PIPE,
                           stderr=subprocess.PIPE, timeout=timeout)
    except subprocess.TimeoutExpired:
        raise ToolError(f"harness {args[0]} timed out after {timeout}s")
    finally:
        if stdin_path:
            fin.close()
    log(f"[harness {args[0]}] {time.time()-t:.1f}s rc={p.returncode}")
    if check and p.returncode != 0:
        log(p.stderr.decode(errors="replace")[-3000:])
        raise ToolError(f"harness {args[0]} exited {p.returncode}")
    return p.stdout.decode(errors="replace"), p.returncode, p.stderr.decode(errors="replace")


def read_ndjson(path):
    out = []
    with open(path) as f:
        for line in f:
            line = line.strip()
            if line:
                out.append(json.loads(line))
    return out


def write_ndjson(path, rows):
    with open(path, "w") as f:
        for r in rows:
            f.write(json.dumps(r, separators=(",", ":")))
            f.write("\n")


class TlcResult:
    def __init__(self):
        self.generated = 0
        self.distinct = 0
        self.printed = []      # parsed PrintT values (json strings -> objects, tuples -> lists)
        self.errors = []
        self.wall = 0.0
        self.coverage = {}
        self.raw_tail = ""
        self.depth = 0


_TUPLE = re.compile(r'^<<.*>>$')


def _parse_printed(line):
    s = line.strip()
    if s.startswith('"') and s.endswith('"'):
        try:
            inner = json.loads(s)
            try:
                return json.loads(inner)
            except Exception:
                return inner
        except Exception:
            return None
    if _TUPLE.match(s):
        body = "[" + s[2:-2] + "]"
        try:
            v = json.loads(body)
            # nested json strings
            return [(_try_json(x) if isinstance(x, str) else x) for x in v]
        except Exception:
            return None
    return None


def _try_json(x):
    if x[:1] in "{[":
        try:
            return json.loads(x)
        except Exception:
            return x
    return x


def tlc(module, cfg, name, workers=8, env=None, timeout=1800, simulate=None, extra=None,
        on_line=None, heap="6g", deadlock=False, coverage=False, keep_printed=True, gen_text=None, raw_out=None):
    """Run TLC on spec/<module>.tla with the given cfg text. Returns TlcResult.

    on_line(obj): called for every parsed PrintT value (streaming; keeps memory flat).
    """
    wd = workdir(name)
    cfgp = os.path.join(wd, module + ".cfg")
    if not deadlock and "CHECK_DEADLOCK" not in cfg:
        cfg += "\nCHECK_DEADLOCK FALSE\n"
    with open(cfgp, "w") as f:
        f.write(cfg)
    modpath = os.path.join(SPEC, module + ".tla")
    if gen_text is not None:      # generated wrapper module (constants as definitions); lives in the work dir
        modpath = os.path.join(wd, module + ".tla")
        with open(modpath, "w") as f:
            f.write(gen_text)
    cmd = ["java", "-XX:+UseParallelGC", f"-Xmx{heap}", "-Xss1g", f"-DTLA-Library={SPEC}",
           "-Dtlc2.tool.queue.IStateQueue=StateDeque" if workers == 1 and simulate is None else "-Dx=y",
           "-cp", TLA_JAR, "tlc2.TLC", "-workers", str(workers), "-metadir", os.path.join(wd, "meta"),
           "-cleanup", "-noGenerateSpecTE", "-config", cfgp]
    if coverage:
        cmd += ["-coverage", "1"]
    if simulate:
        cmd += ["-simulate", simulate]
    if extra:
        cmd += extra
    cmd.append(modpath)
    e = dict(os.environ)
    e.pop("JAVA_TOOL_OPTIONS", None)
    if env:
        e.update({k: str(v) for k, v in env.items()})
    res = TlcResult()
    t = time.time()
    if raw_out:
        # bulk emission: TLC writes straight to a file that the Rust harness parses; we only scan the
        # non-payload lines afterwards
        with open(raw_out, "wb") as fo:
            try:
                rc = subprocess.run(cmd, cwd=wd, env=e, stdout=fo, stderr=subprocess.STDOUT, timeout=timeout).returncode
            except subprocess.TimeoutExpired:
                raise ToolError(f"TLC {module} timed out after {timeout}s")
        p = None
        stream = (l for l in open(raw_out, "r", errors="replace") if l[:1] != '"')
    else:
        p = subprocess.Popen(cmd, cwd=wd, env=e, stdout=subprocess.PIPE, stderr=subprocess.STDOUT, text=True, bufsize=1 << 20)
        stream = p.stdout
    tail = []
    in_error = False
    try:
        for line in stream:
            if p is not None and time.time() - t > timeout:
                p.kill()
                raise ToolError(f"TLC {module} timed out after {timeout}s")
            c = line[:1]
            if c == '"' or c == "<":
                v = _parse_printed(line)
                if v is not None:
                    if on_line:
                        on_line(v)
                    if keep_printed and not on_line:
                        res.printed.append(v)
                    continue
            tail.append(line)
            if len(tail) > 400:
                del tail[:200]
            if line.startswith("Error:") or in_error and line.strip():
                if line.startswith("Error:"):
                    in_error = True
                    res.errors.append(line.strip())
                elif len(res.errors) < 40:
                    res.errors.append(line.rstrip())
            m = re.match(r"^(\d+) states generated, (\d+) distinct states found", line)
            if m:
                res.generated, res.distinct = int(m.group(1)), int(m.group(2))
                in_error = False
            m = re.match(r"^The depth of the complete state graph search is (\d+)", line)
            if m:
                res.depth = int(m.group(1))
            m = re.match(r"^<(\w+) line \d+, col \d+ to line \d+, col \d+ of module (\w+)>: (\d+):(\d+)", line)
            if m:
                res.coverage[m.group(1)] = (int(m.group(3)), int(m.group(4)))
        if p is not None:
            p.wait(timeout=60)
            rc = p.returncode
    finally:
        if p is not None and p.poll() is None:
            p.kill()
    res.wall = time.time() - t
    res.raw_tail = "".join(tail[-80:])
    log(f"[tlc {module}/{name}] {res.wall:.1f}s generated={res.generated} distinct={res.distinct} rc={rc} errors={len(res.errors)}")
    if rc != 0 and not res.errors:
        res.errors.append(f"TLC exit code {rc}")
    shutil.rmtree(os.path.join(wd, "meta"), ignore_errors=True)
    return res


def require_clean(res, what):
    """A TLC error on one of *our* models/specs is a tool failure, never a violation of the code."""
    if res.errors:
        log(res.raw_tail)
        raise ToolError(f"TLC reported errors in {what}: {res.errors[:6]}")


# ---------------------------------------------------------------- findings ----

def load_findings():
    p = os.path.join(ROOT, "known_findings.json")
    if not os.path.exists(p):
        return []
    with open(p) as f:
        return json.load(f)


def finding_matches(entry, prop, sig):
    if entry.get("status") != "known" or entry.get("property") != prop:
        return False
    m = entry.get("match", {})
    for k, v in m.items():
        if sig.get(k) != v:
            return False
    return True


class Check:
    """Accumulates what one check run explored and found; writes evidence; decides exit code."""

    def __init__(self, prop, tier, seed, level="model_checking"):
        self.prop, self.tier, self.seed, self.level = prop, tier, seed, level
        self.t0 = time.time()
        self.violations = []       # dicts: {sig:{...}, what:str, case:...}
        self.cov = {"states": 0, "transitions": 0, "traces_validated_against_impl": 0,
                    "evaluations": 0, "distinct_nontrivial": 0, "samples": [], "exhaustive": False,
                    "rule": "", "engines": {}}
        self.assumptions = []
        self._distinct = set()

    def add_tlc(self, name, res, what=""):
        self.cov["states"] += res.distinct
        self.cov["transitions"] += res.generated
        self.cov["engines"][name] = {"distinct_states": res.distinct, "states_generated": res.generated,
                                     "wall_s": round(res.wall, 1), "what": what}
        if res.coverage:
            self.cov["engines"][name]["action_coverage"] = {k: v[0] for k, v in res.coverage.items()}

    def sample(self, s, limit=6):
        if len(self.cov["samples"]) < limit:
            self.cov["samples"].append(s)

    def count(self, evaluations=0, traces=0):
        self.cov["evaluations"] += evaluations
        self.cov["traces_validated_against_impl"] += traces

    def nontrivial(self, key):
        self._distinct.add(key if isinstance(key, (str, int)) else json.dumps(key, sort_keys=True))

    def violation(self, sig, what, case):
        self.violations.append({"sig": sig, "what": what, "case": case})

    def finish(self):
        findings = load_findings()
        known_hit = {}
        real = []
        for v in self.violations:
            hit = None
            for e in findings:
                if finding_matches(e, self.prop, v["sig"]):
                    hit = e
                    break
            if hit is not None:
                known_hit.setdefault(hit["signature"], [hit, 0])[1] += 1
            else:
                real.append(v)
        for sigid, (e, n) in known_hit.items():
            print(f"KNOWN-FINDING: property={self.prop} {sigid}: {e['what']} ({n} cases)")
        os.makedirs(OUT, exist_ok=True)
        os.makedirs(EVID, exist_ok=True)
        printed = 0
        groups = {}
        for v in real:
            groups.setdefault(json.dumps(v["sig"], sort_keys=True), []).append(v)
        for k, vs in groups.items():
            h = hashlib.sha1(k.encode()).hexdigest()[:10]
            path = os.path.join(OUT, f"{self.prop}-{h}.json")
            with open(path, "w") as f:
                json.dump({"property": self.prop, "sig": vs[0]["sig"], "what": vs[0]["what"],
                           "count": len(vs), "cases": [x["case"] for x in vs[:20]]}, f, indent=1)
            print(f"VIOLATION property={self.prop} replay={path}")
            print(f"  sig={k} cases={len(vs)}: {vs[0]['what'][:700]}")
            printed += 1
        self.cov["distinct_nontrivial"] = max(self.cov["distinct_nontrivial"], len(self._distinct))
        ev = {"property_id": self.prop, "tier": self.tier, "seed": self.seed, "level": self.level,
              "coverage": self.cov, "assumptions": self.assumptions,
              "wall_s": round(time.time() - self.t0, 2), "violations": len(real),
              "known_findings_hit": {k: n for k, (e, n) in known_hit.items()}}
        with open(os.path.join(EVID, f"{self.prop}.json"), "w") as f:
            json.dump(ev, f, indent=1)
        print(f"{self.prop} {self.tier}: explored evaluations={self.cov['evaluations']} states={self.cov['states']} "
              f"replayed={self.cov['traces_validated_against_impl']} violations={len(real)} "
              f"known={sum(n for _, n in known_hit.values())} wall={ev['wall_s']}s")
        return 1 if real else 0
