"""C14 — error number -> ESR class bit (spec: ErrClass / RowsErrClass)."""
import os
from .common import *
from . import rows as R


def run(chk, tier, seed):
    wd = workdir("C14")
    rp = os.path.join(wd, "rows.ndjson")
    harness(["errclass-rows", "--out", rp])
    bad, res, n = R.judge("RowsErrClass", rp, "C14-rows")
    rows = read_ndjson(rp)
    chk.add_tlc("RowsErrClass", res, f"{n} rows: all 65536 error numbers + directed faulty messages")
    for i, _ in bad:
        r = rows[i]
        if r["t"] == "code":
            chk.violation({"engine": "errclass", "t": "code", "century": r["code"] // 100 if r["code"] < 0 else "pos"},
                          f"error number {r['code']}: esr_mask={r['mask']}/{r['emask']} lookup={r['found']}->{r['lcode']} contradicts the 488.2 class", r)
        else:
            chk.violation({"engine": "errclass", "t": "fault", "kind": r["kind"], "input": r["input"]},
                          f"{r['kind']} fault {r['input']!r} raised {r['code']}, outside the class 488.2 assigns", r)
    chk.count(evaluations=n, traces=n)
    chk.cov["distinct_nontrivial"] = sum(1 for r in rows if r["t"] == "fault" or r["code"] < 0 or r["found"])
    chk.cov["exhaustive"] = True
    chk.cov["rule"] = "one row per 16-bit error number (exhaustive) + one per directed faulty message; non-trivial = negative/standard codes and fault rows"
    for r in (rows[32768 - 113], rows[32768 + 5], rows[-3], rows[65536 + 2]):
        chk.sample(r)
    chk.assumptions += ["the errors raised by lexing/dispatch/conversion are additionally classified wherever the other checks generate them (C04, C07, C08, C11)"]
