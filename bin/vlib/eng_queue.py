"""C12 — bounded FIFO error queue (spec: ErrQueue / MCErrQueue / TraceErrQueue)."""
import json, os
from .common import *

ERRS = "{[code |-> -113, ext |-> 0], [code |-> 7, ext |-> 0], [code |-> -200, ext |-> 1]}"


def mc_cfg(cap, maxhist, emit):
    return f"""SPECIFICATION Spec
CONSTANTS
  Cap = {cap}
  MaxHist = {maxhist}
  Emit = {"TRUE" if emit else "FALSE"}
  Errs <- DefaultErrs
CONSTRAINT Bound
INVARIANTS TypeOK NeverOverCap Fifo
PROPERTIES OverflowStep RoomAgain
"""


def run(chk, tier, seed):
    thorough = tier == "thorough"
    caps = [1, 2, 3, 0] if not thorough else [1, 2, 3, 4, 5, 0]
    # 1. design level: the declarative FIFO/bound/marker statements hold of the model (ghost on)
    for cap in caps:
        mh = (cap + 2) if cap else 4
        res = tlc("MCErrQueue", mc_cfg(cap, mh, False), f"C12-mc-{cap}", workers=4, coverage=True)
        require_clean(res, "MCErrQueue invariants")
        chk.add_tlc(f"MCErrQueue(Cap={cap},ghost)", res, "FIFO/bound/overflow-marker invariants on the model")
        for act in ("Push", "Pop", "Clear", "Query"):
            if res.coverage and res.coverage.get(act, (1, 1))[0] == 0:
                raise ToolError(f"vacuity: action {act} never taken in MCErrQueue Cap={cap}")
    # 1b. unbounded: TLAPS proves the type/bound invariant of ErrQueue for EVERY capacity and error set
    import subprocess, re, shutil, time
    pw = workdir("C12-tlaps")
    shutil.copy(os.path.join(SPEC, "proofs", "ErrQueueProof.tla"), pw)
    shutil.copy(os.path.join(SPEC, "ErrQueue.tla"), pw)
    t0 = time.time()
    try:
        pr = subprocess.run(["tlapm", "--threads", "6", "ErrQueueProof.tla"], cwd=pw, stdout=subprocess.PIPE, stderr=subprocess.STDOUT, text=True, timeout=600)
        m = re.search(r"All (\d+) obligations proved", pr.stdout)
        if m:
            chk.cov["engines"]["TLAPS ErrQueueProof"] = {"obligations": int(m.group(1)), "discharged": int(m.group(1)), "wall_s": round(time.time() - t0, 1),
                                                         "what": "Spec => [](queue in Seq(Errs + {Overflow}) /\\ Len(queue) <= Cap) for every Cap in Nat"}
        else:
            raise ToolError("tlapm did not prove ErrQueueProof: " + pr.stdout[-600:])
    except subprocess.TimeoutExpired:
        raise ToolError("tlapm timed out")
    # 2. spec -> impl: every (state, op) edge of the bounded model executed on the real queues
    edges = []
    for cap in caps:
        mh = (cap + 1) if cap else 3
        res = tlc("MCErrQueue", mc_cfg(cap, mh, True).replace("INVARIANTS TypeOK NeverOverCap Fifo\nPROPERTIES OverflowStep RoomAgain\n", ""),
                  f"C12-edges-{cap}", workers=4)
        require_clean(res, "MCErrQueue edge emission")
        edges += [e for e in res.printed if isinstance(e, dict)]
        chk.add_tlc(f"MCErrQueue(Cap={cap},edges)", res, "edge emission")
    wd = workdir("C12-replay")
    ep = os.path.join(wd, "edges.ndjson")
    write_ndjson(ep, edges)
    out, _, _ = harness(["queue-edges", "--edges", ep])
    summary = None
    for line in out.splitlines():
        v = json.loads(line)
        if v.get("summary"):
            summary = v
        else:
            e = v["edge"]
            chk.violation({"engine": "queue-edge", "op": e["op"], "cap": e["cap"], "full": len(e["pre"]) >= e["cap"] > 0,
                           "kind": v["bad"]},
                          f"queue op {e['op']} on {e['pre']} (cap {e['cap']}): expected {e['resp']}/{e['post']}, got {v.get('got', v.get('msg'))}", v)
    if not summary or (summary["bad"] == 0 and (summary["unreached"] or summary["executed"] != len(edges))):
        raise ToolError(f"edge replay incomplete: {summary}")
    chk.count(evaluations=len(edges), traces=len(edges))
    for e in edges:
        if e["op"] == "push" and e["cap"] and len(e["pre"]) >= e["cap"]:
            chk.nontrivial(("ovf", e["cap"], json.dumps(e["pre"]), json.dumps(e["arg"])))
        elif e["op"] == "pop" and e["pre"]:
            chk.nontrivial(("pop", e["cap"], json.dumps(e["pre"])))
    for e in edges[:2] + edges[len(edges) // 2: len(edges) // 2 + 2]:
        chk.sample({"edge": e})
    # 3. impl -> spec: long random histories on all capacities validated by TraceErrQueue
    ops = 1500 if not thorough else 150000
    tp = os.path.join(wd, "trace.ndjson")
    harness(["queue-trace", "--seed", seed, "--ops", ops, "--out", tp])
    nlines = sum(1 for _ in open(tp))
    bad = []
    res = tlc("TraceErrQueue", "SPECIFICATION TraceSpec\nPOSTCONDITION Complete\n", "C12-trace", workers=1,
              env={"TRACE": tp}, on_line=lambda v: bad.append(v))
    require_clean(res, "TraceErrQueue")
    chk.add_tlc("TraceErrQueue", res, f"{nlines} recorded queue calls on capacities 0(Vec),1,2,3,4,5,8,16,32")
    if res.distinct != nlines + 1 or any(isinstance(b, list) and b and b[0] == "INCOMPLETE" for b in bad):
        raise ToolError(f"trace not fully consumed: {res.distinct} states for {nlines} lines")
    rows = None
    for b in bad:
        if isinstance(b, list) and b and b[0] == "BAD":
            if rows is None:
                rows = read_ndjson(tp)
            ev = rows[b[1] - 1]
            chk.violation({"engine": "queue-trace", "op": ev["op"]},
                          f"recorded call {ev['op']} not allowed by ErrQueue at line {b[1]}", {"line": b[1], "detail": b[2]})
    chk.count(evaluations=nlines, traces=len(ERR_CAPS))
    chk.sample({"trace_lines": [json.loads(x) for x in open(tp).readlines()[1:4]]})
    chk.cov["exhaustive"] = True
    chk.cov["rule"] = ("edges: all reachable (queue, op, arg) triples of MCErrQueue for Cap in %s with 3 error values and a bounded number of accepted pushes, "
                       "each executed on ArrayVec<Error,Cap> / Vec<Error>; non-trivial = pushes into a full queue and pops of a non-empty queue; "
                       "traces: seeded random histories of %d calls per capacity") % (caps, ops)
    chk.assumptions += ["the TLAPS proof is about the specification only (all capacities); the code is bound to it by replay and trace validation",
                        "ArrayVec<Error,N> is instantiated for N in {1,2,3,4,5,8,16,32} only",
                        "the model bounds the number of accepted pushes (state constraint), so exhaustive edges cover queues up to Cap+1 pushes"]


ERR_CAPS = [0, 1, 2, 3, 4, 5, 8, 16, 32]
