"""C18 — unit suffixes (spec: Suffix / RowsSuffix)."""
import json, os
import concurrent.futures as cf
from .common import *
from . import rows as R


def txt(b):
    return bytes(b).decode("latin1")


def run(chk, tier, seed):
    wd = workdir("C18-suffix")
    rp = os.path.join(wd, "rows.ndjson")
    harness(["suffix-rows", "--seed", seed, "--tier", tier, "--out", rp])
    rows = read_ndjson(rp)
    k = max(1, min(8, len(rows) // 4000))
    parts = []
    for s in range(k):
        sp = os.path.join(wd, f"rows-{s}.ndjson")
        write_ndjson(sp, rows[s::k])
        parts.append((s, sp))

    def one(a):
        s, sp = a
        bad, res, cnt = R.judge("RowsSuffix", sp, f"C18-rows-{s}", workers=3, timeout=3000)
        return s, bad, res, cnt
    bad_idx = []
    with cf.ThreadPoolExecutor(max_workers=k) as ex:
        for s, bad, res, cnt in ex.map(one, parts):
            chk.add_tlc(f"RowsSuffix[{s}]", res, f"{cnt} rows judged")
            bad_idx += [s + k * i for i, _ in bad]
    for i in sorted(bad_idx):
        r = rows[i]
        o = r["obs"]
        got = "accepted" if o["k"] == "ok" else f"error {o['code']}"
        sig = {"engine": "suffix", "t": r["t"], "q": r["q"], "suffix": txt(r["suf"]).upper(), "got": "ok" if o["k"] == "ok" else "err"}
        chk.violation(sig, f"{r['q']} (f{r['w']}) from {r['src']!r}: {got}" + (f", stored base value {o['v']}" if o["k"] == "ok" else "") +
                      f" (upper-case spelling accepted: {r['upok']}, class {o.get('cls')!r}): not allowed by Suffix.tla", r)
    accepted = [r for r in rows if r["obs"]["k"] == "ok" and r["suf"]]
    chk.count(evaluations=len(rows), traces=len(rows))
    chk.cov["distinct_nontrivial"] = len({(r["t"], r["q"], txt(r["suf"]).upper()) for r in accepted})
    chk.cov["accepted_suffixes_value_checked"] = chk.cov["distinct_nontrivial"]
    chk.cov["rejected_rows"] = sum(1 for r in rows if r["obs"]["k"] != "ok")
    if chk.cov["distinct_nontrivial"] < 50:
        raise ToolError("vacuity: fewer than 50 accepted (quantity, suffix) pairs were value-checked")
    for r in (accepted[0], accepted[len(accepted) // 2]):
        chk.sample({"q": r["q"], "src": r["src"], "base_value": r["obs"]["v"]})
    chk.cov["rule"] = ("14 quantities x {13 SCPI multipliers x the quantity's unit names, single-edit neighbours, other quantities' units, amplitude/decibel tails, junk, random strings} x 3 letter-case patterns x 5 literals (f32) / 2 (f64); "
                       "plus Amplitude<V|A|W> and Db<V|W|A|ratio> rows; for every accepted suffix the stored base value must be literal x multiplier x unit factor (+ offset) within 1e-5 relative; "
                       "a suffix the general SCPI rule does not allow for the quantity must be rejected; acceptance must not depend on case; distinct non-trivial = accepted (kind, quantity, suffix) triples")
    chk.assumptions += ["the SCPI-99 unit/multiplier table is transcribed from memory of vol. 1 7.1.4 (no network); DEG/MNT/SEC/REV/GON/ANN/D are checked for self-consistency with their usual definitions",
                        "a combination the rule allows may be rejected by the library (it defines a subset); bare numbers for temperature may be K or CEL"]
