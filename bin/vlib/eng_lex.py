"""C04 / C01 — lexer (spec: ScpiLex / MCLex)."""
import json, os
from .common import *
from .eng_exec import tla_bytes

# one representative byte per lexical class, plus chunks (DESIGN appendix A)
SINGLES = [b"A", b"b", b"E", b"H", b"0", b"1", b"2", b"_", b"*", b":", b"?", b";", b",", b" ", b"\t", b"\n", b"+", b"-", b".",
           b"#", b'"', b"'", b"(", b")", b"@", b"/", b"\x00", b"\xff", b"\r"]
CHUNKS = [b"AAAAAAAAAAA", b"111111111", b';"\x00\xfe']
REDUCED = [b"A", b"E", b"1", b"0", b".", b"-", b"#", b"H", b"'", b";", b",", b" ", b"\n", b":", b"?", b"(", b")", b"\xff"]
HDRS = [b"A", b"B", b"*", b":", b";", b"?", b" ", b"1", b","]
REPS = [ord(c) for c in "Ab1_*:?;, \t\n\r+-.#\"'()@/E!"] + [0, 255]

BASES = [
    b"A", b"A?", b":A;B", b"*IDN?", b"AB:A 1", b"A 1,2;B 3", b"A -1.5e+3", b"A .5", b"A 5.", b"A +12E-2",
    b"A ABC", b"A ABCDEFGHIJKL", b"ABCDEFGHIJKL 1", b"A 10 V", b"A 10V", b"A 1.5 MA/S", b"A 1 ABCDEFGHIJKL",
    b"A #HFF", b"A #Q17", b"A #B101", b"A #hff,#q7,#b1",
    b"A 'x'", b"A \"x\"", b"A 'a;b,c:d'", b"A 'it''s'", b"A \"q\"\"r\"", b"A ''", b"A 'a' , \"b\"",
    b"A #13a;b", b"A #10", b"A #210ABCDEFGHIJ", b"A #19123456789,1", b"A #205hello", b"A #H0F", b"A #0abc;,\n", b"A #15';\"(),2",
    b"A (1,2)", b"A (@1:3,5)", b"A ()", b"A (1),(2)", b"A (@1!2,3!4:5!6)", b"A (1,2:3,-4.5e1)", b"A (@1!2!3)",
    b"A 1 ,2", b"A 1, 2", b"A 1 , 2 ;B", b"A ;B", b"A; B", b"A ; B", b"A\n", b"A \n", b"A?;B?\n", b"A? 1;*IDN?", b"A;",
    b"*IDN;:A", b"*A;AB:A?", b"A;*IDN;B 1", b"*IDN?;:SYST:ERR?",
    b"A #HFFFFFFFFFFFFFFFF", b"A #Q1777777777777777777777", b"A #B" + b"1" * 64, b"A #9000000005hello,1", b"A #40002ab;B",
    b"A 255", b"A 256", b"A 65536", b"A 32768", b"A 2147483648", b"A 4294967296", b"A 9223372036854775808", b"A 18446744073709551616", b"A -129,-32769",
    b"A ON\r\n", b"A 1;B 'x'\r\n", b"A? #13abc \r\n", b"A (1)\x0c;B\r", b"A\r\n",
    b"SYST:ERR?", b"SYSTem:ERRor:NEXT?;COUN?", b":SYST:ERR:COUN?;:AB:A 'x',#11y,(z),Q,#H1,1 S,2",
    b"A 1;B 'two';E #13abc;H (4);A FIVE;B #H6;E 7 S",
]


# long / malformed inputs that are only listed (no corruption): over-long elements far beyond every limit
PUNCT = [bytes([c]) for c in range(0x21, 0x7f) if not chr(c).isalnum()]
LISTED = ([b"A AB" + c + b"C" for c in PUNCT] + [b"AB" + c + b"C:X 1" for c in PUNCT] + [b"A 1" + c + b"2" for c in PUNCT]          # every punctuation byte inside character data / a mnemonic / a number
          + [x for c in list(range(0x80, 0x100)) + [0x0b, 0x00, 0x7f] for x in (b"A 1" + bytes([c]) + b",2", b"A 1," + bytes([c]) + b"2", b"A " + bytes([c]) + b"1", b"A 1;" + bytes([c]) + b"B", b"A?" + bytes([c]) + b"1")]
          + [b"A?\t1", b"A?\x0c;B?", b"A?\r\n", b"*IDN?\r\n", b"A?\t;B?", b"A #b101", b"A #q17,#h1f", b"A 1E2147483648", b"A 1E-4294967296", b"A 1.5e99999999999999999999",
             b"A #B" + b"0" * 250 + b"101010", b"A #H" + b"0" * 256 + b"fF;B", b"A #Q" + b"0" * 300 + b"377", b"A 0.25 V,.75 V", b"A 2 KHZ, .5 MHZ", b"A ASC2,REAL", b"A X,Y,Z"])
LISTED += [b"A " + b"0" * 255 + b"1 KV", b"A " + b"0" * 256 + b"7,." + b"0" * 256 + b"1", b"A 1E" + b"0" * 256, b"A 1E000003 V", b"A 25E-000003 KOHM", b"A 1." + b"0" * 512 + b"E+01",
          b"A #565536" + b"x" * 65536, b"A #6100000" + b"y" * 100000 + b",#H10;B", b"A #565535" + b"z" * 65535 + b";B",
          b"A " + b",".join(b"%d" % i for i in range(1, 301)), b"A 'p\x7fq',\"\x01\x7f\"", b"A (@1,'dev\x7fA',2!3)", b"A?;\tB", b"A;\r:B", b"A low_noise,a_b,norm_",
          ] + [b"A #%d%s%s" % (w, (b"%d" % 5).rjust(w, b"0"), b"he;,o") for w in range(1, 10)] + [b"A #%d%s%s,2" % (w, (b"%d" % 12).rjust(w, b"0"), b"0123456789\n'") for w in range(2, 10)] + [
          b"A #HFFFFFFFFFFFFFFF" + bytes([c]) for c in b"0123456789ABCDEFabcdef"] + [b"A #Q177777777777777777777" + bytes([c]) for c in b"01234567"] + [
          b"A #B" + b"1" * 63 + b"0", b"A #b" + b"0" * 30 + b"1" * 64, b"A #H0000000000000000000FFFFFFFFFFFFFFFF", b"A #H10000000000000000", b"A #Q2000000000000000000000", b"A #B1" + b"0" * 64] + [b"A '" + b"s" * 300 + b"'", b"A #3300" + b"b" * 300, b"A #3301" + b"b" * 300, b"A '" + b"s" * 300, b"A " + b"X" * 256, b"A " + b"X" * 270, b"A 1 " + b"S" * 256, b"Y" * 260 + b" 1", b"A " + b"9" * 300, b"A 1e" + b"9" * 300,
          b"A #H" + b"F" * 300, b"A (" + b"1," * 200 + b"1)", b"A (@" + b"1!" * 200 + b"1)", b"A " + b"1," * 300 + b"1", b":" * 300, b";" * 300,
          b"A" + b":A" * 200, b"A?" + b";A?" * 200, b"*" + b"Z" * 300]


def mc_text(name, mode, alphabet, maxlen, prefix, bases):
    return (f"---- MODULE {name} ----\nEXTENDS MCLex\n"
            f"C_Alphabet == {{{', '.join(tla_bytes(a) for a in alphabet)}}}\n"
            f"C_Prefix == {tla_bytes(prefix)}\n"
            f"C_Bases == {{{', '.join(tla_bytes(b) for b in bases)}}}\n"
            f"C_Reps == {{{', '.join(map(str, REPS))}}}\n====\n")


def mc_cfg(mode, maxlen):
    return (f"SPECIFICATION Spec\nCONSTANTS\n  Mode = \"{mode}\"\n  Alphabet <- C_Alphabet\n  MaxLen = {maxlen}\n  Prefix <- C_Prefix\n"
            "  Bases <- C_Bases\n  Reps <- C_Reps\nINVARIANTS Emit Shape BasesWellFormed\n")


def run_gen(chk, prop, name, mode, alphabet, maxlen, prefix, bases, conv=True, workers=8, profiles=("debug",)):
    wd = os.path.join(WORK, f"{prop}-lex")
    os.makedirs(wd, exist_ok=True)
    mod = f"MCLex_{prop}_{name}".replace("-", "_")
    raw = os.path.join(wd, f"{name}.raw")
    res = tlc(mod, mc_cfg(mode, maxlen), f"{prop}-mc-{name}", workers=workers, gen_text=mc_text(mod, mode, alphabet, maxlen, prefix, bases),
              raw_out=raw, timeout=3000)
    require_clean(res, f"MCLex[{name}]")
    chk.add_tlc(f"MCLex[{name}]", res, f"mode {mode}: strings generated and classified W/M/U by ScpiLex; Shape invariant")
    summary = None
    c01, c04 = [], []
    for prof in profiles:
        out, _, _ = harness(["lex-replay", "--cases", raw] + ([] if conv else ["--no-conv"]), timeout=3000, profile=prof)
        for line in out.splitlines():
            v = json.loads(line)
            if v.get("summary"):
                summary = v
                continue
            v["profile"] = prof
            for b in v["bad"]:
                (c01 if b.startswith("C01") else c04).append((b + (" [release build]" if prof == "release" else ""), v))
    os.remove(raw)
    if not summary:
        raise ToolError("lex-replay produced no summary")
    if summary.get("aborted") != "hang" and summary["cases"] != res.distinct:
        raise ToolError(f"lex-replay incomplete: {summary.get('cases')} of {res.distinct}")
    return summary, c01, c04


# ---- whole pipeline: bytes -> ScpiLex -> units -> ScpiTree/ScpiExec, replayed on Node::run with logging handlers
def pipeline_tree():
    from .eng_exec import T, B, L, flatten
    return flatten(T(L("A"), L("B"), L("E"), L("H"), L("*A"), L("*IDN"), B("AB", L("A"), L("B", d=True)),
                     B("SYSTem", B("ERRor", L("NEXT", d=True), L("COUNt"))), L("AAAAAAAAAAAA")))


def run_pipeline(chk, prop, name, mode, alphabet, maxlen, prefix, bases):
    from .eng_exec import tla_tree
    wd = os.path.join(WORK, f"{prop}-lex")
    os.makedirs(wd, exist_ok=True)
    ft = pipeline_tree()
    mod = f"MCRun_{prop}_{name}".replace("-", "_")
    text = mc_text(mod, mode, alphabet, maxlen, prefix, bases).replace("EXTENDS MCLex", "EXTENDS MCRun").replace(
        "====", f"C_Tree == {tla_tree(ft)}\n====")
    cfg = mc_cfg(mode, maxlen).replace("INVARIANTS Emit Shape BasesWellFormed", "  Tree <- C_Tree\n  MCands = {}\nINVARIANTS EmitRun")
    raw = os.path.join(wd, f"run-{name}.raw")
    res = tlc(mod, cfg, f"{prop}-run-{name}", workers=8, gen_text=text, raw_out=raw, timeout=3000)
    require_clean(res, f"MCRun[{name}]")
    chk.add_tlc(f"MCRun[{name}]", res, "strings enumerated; for the well-formed ones the expected execution (ScpiRun) is emitted")
    tp = os.path.join(wd, "pipeline.tree.json")
    with open(tp, "w") as f:
        json.dump(ft, f)
    out, _, _ = harness(["exec-replay", "--tree", tp, "--cases", raw])
    os.remove(raw)
    summary = None
    for line in out.splitlines():
        v = json.loads(line)
        if v.get("summary"):
            summary = v
            continue
        c0 = v["case"]
        chk.violation({"engine": "pipeline", "why": v["bad"]},
                      f"well-formed message {v['message']!r}: ScpiRun expects calls {[(x['leaf'], x['form'], len(x['got'])) for x in c0['calls']]} err {c0['err']} out {bytes(c0['out'])!r}; "
                      f"implementation gave {json.dumps(v['got'])[:500]}", {"message": v["message"], "bytes": c0["bytes"], "got": v["got"]})
    if not summary:
        raise ToolError("pipeline replay produced no summary")
    chk.count(evaluations=summary["executed"], traces=summary["executed"])
    chk.cov.setdefault("pipeline_messages", 0)
    chk.cov["pipeline_messages"] += summary["executed"]
    return summary


def sig_c04(b, v):
    if "decomposition differs" in b:
        return {"engine": "lex", "what": "decomposition", "first": first_diff(v)}
    if "malformed" in b:
        return {"engine": "lex", "what": "malformed-accepted", "kind": v["kind"], "run": v["run"]}
    return {"engine": "lex", "what": "wellformed-rejected", "run": v["run"]}


def first_diff(v):
    e, g = v.get("expected_els") or [], v.get("got_els") or []
    for i, (a, b) in enumerate(zip(e, g)):
        if a != b:
            return f"{a['t']}->{b['t']}" if a["t"] != b["t"] else f"{a['t']}-range"
    if len(g) < len(e):
        return f"stops-before-{e[len(g)]['t']}({v.get('tok_end')})"
    return "extra-elements"


def report(chk, prop, c01, c04):
    for b, v in (c04 if prop == "C04" else []):
        chk.violation(sig_c04(b, v), f"input {v['input']!r} ({v['v']} {v['kind']}): {b}; expected elements {json.dumps(v.get('expected_els'))[:300]} got {json.dumps(v.get('got_els'))[:300]} (tokenizer end {v.get('tok_end')}, run {v.get('run')})",
                      {"input": v["input"], "bytes": v.get("bytes"), "problem": b})
    for b, v in (c01 if prop == "C01" else []):
        what = "hang" if "hang" in b else "panic" if "panic" in b else "internal-error" if "internal" in b else "nontermination"
        where = b.split(":")[0][4:].split(" converting")[0][:60]
        chk.violation({"engine": "lex", "what": what, "where": where}, f"input {v['input']!r}: {b}", {"input": v["input"], "bytes": v.get("bytes"), "problem": b})


def explore(chk, prop, tier):
    th = tier == "thorough"
    alpha = SINGLES + CHUNKS
    plan = [("start", "enum", alpha, 3 if not th else 3, b"", []),
            ("data", "enum", alpha, 3 if not th else 3, b"A ", []),
            ("data4", "enum", REDUCED, 4 if not th else 5, b"A ", []),
            ("start4", "enum", REDUCED, 3 if not th else 4, b"AB:", []),
            ("hdr5", "enum", HDRS, 5 if not th else 6, b"", []),
            ("corrupt", "corrupt", [], 0, b"", BASES),
            ("listed", "list", [], 0, b"", LISTED)]
    if th:
        plan.append(("data-full4", "enum", alpha, 4, b"A ", []))
    tot = {"cases": 0, "W": 0, "M": 0, "U": 0, "conversions": 0}
    kinds = {}
    for name, mode, alphabet, maxlen, prefix, bases in plan:
        s, c01, c04 = run_gen(chk, prop, name, mode, alphabet, maxlen, prefix, bases,
                              profiles=("debug", "release") if (prop == "C01" and th) else ("debug",))
        report(chk, prop, c01, c04)
        for k in tot:
            tot[k] += s.get(k, 0)
        for k, n in s.get("kinds", {}).items():
            kinds[k] = kinds.get(k, 0) + n
        for x in s.get("samples", [])[:2]:
            chk.sample(x)
    return tot, kinds


DEEP = ["sep-ws", "sep-num", "units", "levels", "open-parens", "expr-list", "chan-dims", "hashes", "quotes",
        "ws-run", "semicolons", "colons", "num-ws", "sep-ws-q", "queries", "commas"]


def deep_inputs(chk, tier):
    """C01, stack depth: long repetitive inputs, each in its own process on a thread with a small stack."""
    n = 20000 if tier == "quick" else 200000
    done = 0
    for profile in (("debug",) if tier == "quick" else ("debug", "release")):
        for pat in DEEP:
            out, rc, err = harness(["lex-deep", "--pattern", pat, "--n", n, "--stack-kb", 256], profile=profile, timeout=600, check=False)
            done += 1
            ok = False
            if rc == 0:
                try:
                    v = json.loads(out.strip().splitlines()[-1])
                    ok = v.get("survived") and "panic" not in v
                except Exception:
                    v = {"raw": out[-200:]}
            else:
                v = {"stderr": err[-300:]}
            if not ok:
                chk.violation({"engine": "deep", "pattern": pat},
                              f"input pattern {pat!r} repeated {n} times ({profile} build, 256 KiB stack): process exit {rc} {v} -- not a returned error",
                              {"pattern": pat, "n": n, "profile": profile, "rc": rc, "detail": v})
    chk.count(evaluations=done, traces=done)
    chk.sample({"deep_patterns": DEEP, "repetitions": n})


def run(chk, tier, seed):
    tot, kinds = explore(chk, chk.prop, tier)
    if chk.prop == "C01":
        deep_inputs(chk, tier)
    if chk.prop == "C04":
        th = tier == "thorough"
        n = 0
        for name, mode, alphabet, maxlen, prefix, bases in [("data", "enum", SINGLES + CHUNKS, 3, b"A ", []), ("hdr", "enum", HDRS, 5 if not th else 6, b"", []),
                                                            ("bases", "corrupt", [], 0, b"", BASES)]:
            n += run_pipeline(chk, "C04", name, mode, alphabet, maxlen, prefix, bases)["executed"]
        if n < 2000:
            raise ToolError(f"vacuity: only {n} well-formed strings reached the pipeline replay")
    chk.count(evaluations=tot["cases"], traces=tot["cases"])
    chk.cov["exhaustive"] = True
    if chk.prop == "C04":
        chk.cov["distinct_nontrivial"] = tot["W"] + tot["M"]
        chk.cov["verdicts"] = {k: tot[k] for k in ("W", "M", "U")}
        chk.cov["malformation_kinds"] = kinds
        if len(kinds) < 12 or tot["W"] < 1000:
            raise ToolError(f"vacuity: too few malformation kinds / well-formed strings generated: {kinds} W={tot['W']}")
        chk.cov["rule"] = ("every concatenation of <= 3 symbols over 28 class representatives + 3 chunks at message start and after 'A ', <= 4 symbols over 18 representatives after 'A ' and 'AB:', "
                           f"and every single-byte deletion / insertion / replacement (26 representative bytes) and truncation of {len(BASES)} grammar-derived base messages; each string is classified W/M/U by ScpiLex.tla; "
                           "W: token stream (kinds, separators, exact payload byte ranges, non-decimal values) must equal the decomposition and must not be rejected lexically; M: Node::run must fail with a command error; non-trivial = W or M strings")
        chk.assumptions += ["U (unspecified) inputs are only checked for totality: white space other than SP/TAB, white space around the exponent, leading white space, empty units, bytes glued to a header, malformed expressions, 12-character common mnemonics, >63-bit non-decimal literals"]
    else:
        chk.cov["distinct_nontrivial"] = tot["cases"]
        chk.cov["conversions_attempted"] = tot["conversions"]
        chk.cov["rule"] = ("the same strings as C04; each is tokenized, executed with Node::run on a permissive tree with a pull-everything handler, and every data token is put through 31 typed conversions "
                           "and both list iterators (to their first error) under catch_unwind with a 20 s hang watchdog; debug-assertions build (release build in thorough); "
                           f"plus {len(DEEP)} repetitive patterns of 20 000 (thorough: 200 000) repetitions, each run in its own process on a 256 KiB stack (recursion proportional to the input aborts the process)")
