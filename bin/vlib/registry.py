"""The table MANIFEST.json is generated from (bin/mkmanifest)."""

HOOKS = {
    "guard": "scpi_rs_verif",
    "enable": "none needed: every linearization point is observable through public traits (Command, Device, ErrorQueue, Formatter); the guard name is reserved and unused",
    "baseline_off_cmd": "cd /repo && cargo test --workspace --no-fail-fast --offline",
    "source_commits": [],
    "add_only": True,
}

ENGINES_DOC = [
    {"name": "spec", "path": "spec/", "serves_properties": ["C01", "C02", "C03", "C04", "C07", "C08", "C09", "C17", "C18", "C19", "C20", "C05", "C06", "C10", "C11", "C12", "C13", "C14", "C15", "C16"],
     "kind_free_text": "TLA+ modules (single source of truth) checked with TLC"},
    {"name": "harness", "path": "harness/", "serves_properties": ["C01", "C02", "C03", "C04", "C07", "C08", "C09", "C17", "C18", "C19", "C20", "C05", "C06", "C10", "C11", "C12", "C13", "C14", "C15", "C16"],
     "kind_free_text": "Rust conformance harness: replays TLC-generated behaviours on the real code, records traces/rows for TLC to judge"},
    {"name": "orchestrator", "path": "bin/check", "serves_properties": ["C01", "C02", "C03", "C04", "C07", "C08", "C09", "C17", "C18", "C19", "C20", "C05", "C06", "C10", "C11", "C12", "C13", "C14", "C15", "C16"],
     "kind_free_text": "python3 driver: build, TLC, replay/validation, evidence, exit code"},
]

CHECKS = {
    "C12": {
        "engine": "spec",
        "text": "TLC checks the FIFO / capacity / overflow-marker statements on the ErrQueue model for Cap in {1,2,3,unbounded}; every (state, operation) edge of that model is executed on ArrayVec<Error,Cap> and Vec<Error> (exhaustive within the bound), and seeded random histories on nine capacities are validated line by line against the same specification.",
        "design_ref": "DESIGN.md 3 C12",
        "note": "Bounded: 3 error values and Cap+1 accepted pushes for the exhaustive part; ArrayVec instantiated for N in {1,2,3,4,5,8,16,32}; trusts TLC and the harness projection (queue contents -> [code, ext]).",
        "technique": "TLA+ model checking (TLC) + edge replay into the implementation + trace validation",
    },
}

CHECKS.update({
    "C13": {
        "engine": "spec",
        "text": "ScpiStatus (error hook = ESR class bit + queue push; SYST:ERR[:NEXT]?/COUN?/ALL?, *ESR?, *OPC, *CLS) is model-checked on bounded projections; every (state, message) edge of the projections (6 handler-raised errors, 4 kinds of genuinely invalid messages, Vec and 2-slot queues) is executed on a real device wired as the minimal example, and seeded random histories of 1-3 unit messages (failures inside the same message as the queries) are validated line by line by TLC.",
        "design_ref": "DESIGN.md 3 C13",
        "note": "Exhaustive part bounded to queue length <= 2 (3 thorough) and representative errors; the wording of error messages is compared with the library's own get_message(), only `0,\"No error\"` is fixed. SYST:ERR:ALL? may answer full items or bare codes.",
        "technique": "TLA+ model checking (TLC) + edge replay into the implementation + trace validation",
    },
    "C15": {
        "engine": "spec",
        "text": "TLC checks the declarative latch (ghost of filtered transitions since last read/clear) against the register update rule on the MCStatus projection; all reachable (state, command/device-event) edges over bit pairs {b,15} are executed on the real EventRegister and STATus tree for every bit position b=0..14 and both register sets; random 16-bit histories are validated by TraceStatus.",
        "design_ref": "DESIGN.md 3 C15",
        "note": "Exhaustive over 2 model bits per register set (3 in thorough) rotated over all positions; full 16-bit interleavings only in recorded traces.",
        "technique": "TLA+ model checking (TLC) + edge replay into the implementation + trace validation",
    },
    "C16": {
        "engine": "spec",
        "text": "The 488.2 status byte composition and the common commands are specified in ScpiStatus; TLC checks the STB shape invariants and emits every (state, command, mav) edge of the summary projections (all 32 SRE subsets of bits 2,3,4,5,7 x ESB x queue x register summary x MAV), each executed on the real device; out-of-range *ESE/*SRE writes and random full-width histories are validated as traces.",
        "design_ref": "DESIGN.md 3 C16",
        "note": "STB bits 3/7 are required only where condition&enable and event&enable agree (488.2 vs the library's documented reading; the property does not choose).",
        "technique": "TLA+ model checking (TLC) + edge replay into the implementation + trace validation",
    },
})

CHECKS.update({
    "C14": {
        "engine": "spec",
        "text": "ErrClass.tla states the 488.2 century rule; the harness records, for all 65536 error numbers, the ESR mask and the lookup result the library reports, plus the error raised by ~60 directed faulty messages (syntax/header/type -> command error; range/value/buffer -> execution error); TLC judges every row. Exhaustive over the error-number domain.",
        "design_ref": "DESIGN.md 3 C14",
        "note": "The class of library-raised errors is additionally enforced wherever other checks generate faults (C04 malformed input, C07 -222, C11 -225).",
        "technique": "TLA+ specification of the classification; exhaustive row validation with TLC",
    },
})

CHECKS.update({
    "C03": {
        "engine": "spec",
        "text": "Mnemonic.tla states the short/long-form and default-1 suffix rule declaratively (and TLC checks that a lock-step scan with an `optional' latch decides the same relation). TLC enumerates every candidate string up to a bounded length over 9 bytes against 12 definitions with the expected verdicts, replayed on mnemonic_compare / mnemonic_match / Token::match_program_header; directed (every prefix x case x suffix spelling, all single-edit neighbours) and random rows on ~170 SCPI-shaped definitions up to 12 characters are judged by TLC as an iff.",
        "design_ref": "DESIGN.md 3 C03",
        "note": "Definitions are of SCPI shape; keyword comparison (mnemonic_compare) is judged only for mnemonics without numeric suffix, for which it is defined.",
        "technique": "TLA+ relation specification; bounded-exhaustive enumeration by TLC replayed on the code + row validation by TLC",
    },
})

_EXEC_TECH = "TLA+ specification of the dispatcher (ScpiTree/ScpiExec); TLC enumerates messages and computes expected outcomes, replayed on Node::run"
CHECKS.update({
    "C02": {
        "engine": "spec",
        "text": "ScpiTree.tla defines designation declaratively (a header spells the names to a leaf after deleting any subset of default nodes) and the level of the last explicit node; TLC checks it equals first-match search on the SCPI-valid library trees and enumerates every header of <= 3 candidate mnemonics x leading colon x event/query as 1-unit messages plus every 2-unit message with a valid first unit (relative resolution, common commands, -113 without a call); each is replayed on the real dispatcher with logging handlers, also after a preceding message.",
        "design_ref": "DESIGN.md 3 C02",
        "note": "Bounded: 7 library trees (depth <= 4, default leaves/branches, anonymous default leaf, numeric-suffixed siblings, same name at two levels, root-level default branch); trees must satisfy ValidTree (checked by TLC).",
        "technique": _EXEC_TECH,
    },
    "C05": {
        "engine": "spec", "category": "model_checking",
        "text": "ScpiExec.tla executes a message one unit per step and freezes after the first failure (invariants Order, Frozen checked by TLC). TLC enumerates all messages of <= 3 units over fault-free and single-fault units (handler errors incl. extended and after a partial response, malformed headers, malformed data pulled/not pulled, undefined header, -109, -108) and all query messages x every buffer capacity; the replay compares handler calls (order/count/form), the returned error and the error hook (exactly once, same error).",
        "design_ref": "DESIGN.md 3 C05",
        "note": "One fault per unit; formatter faults only through capacity exhaustion; a lexical fault in a unit's data may surface before or inside that unit's handler (both accepted).",
        "technique": _EXEC_TECH + " + fault enumeration",
    },
    "C06": {
        "engine": "spec",
        "text": "ScpiExec.tla gives a handler exactly data[1..k] of its own unit, -109 for a missing required pull, nothing for a missing optional one and -108 for surplus data (invariant OwnData). TLC enumerates units with 0..3 data elements of all seven types x every pull sequence of <= 3 (4) required/optional pulls in first, middle and last position before every ending; handlers log the exact tokens (kind + payload bytes) they receive.",
        "design_ref": "DESIGN.md 3 C06",
        "note": "Payload comparison is by token kind and payload bytes as handed to the handler.",
        "technique": _EXEC_TECH,
    },
    "C10": {
        "engine": "spec",
        "text": "ScpiExec.tla builds the response as ';'-joined unit texts ([header SP] ','-joined data) and one NL iff non-empty (invariant Framing). TLC enumerates every message of <= 3 (4) units over query units with 1-3 data (incl. ';' ',' inside strings/blocks, with/without header) and non-query units x 7 endings (end, NL, ws, ws NL, ';', ';NL', '; '); byte-exact comparison of the buffer.",
        "design_ref": "DESIGN.md 3 C10",
        "note": "A query that writes nothing is not generated (488.2 has no empty response unit).",
        "technique": _EXEC_TECH,
    },
    "C11": {
        "engine": "spec", "category": "model_checking",
        "text": "ScpiExec.tla with a capacity: a write succeeds iff it fits, else -225; TLC enumerates every <= 3-unit message x every capacity 0..52 (beyond the longest response) and the growable buffer; replay on ArrayVec<u8,CAP>: Ok => bytes equal the specification's (= growable run), else exactly -225 and len <= CAP, never a panic; a counting global allocator asserts zero heap allocations inside Node::run (handler bookkeeping excluded).",
        "design_ref": "DESIGN.md 3 C11",
        "note": "Allocation-freedom is monitored on every replayed message rather than derived from the specification.",
        "technique": _EXEC_TECH + " + fault enumeration over capacities + allocation monitor",
    },
})

_LEX_TECH = "TLA+ specification of the 488.2 lexical grammar (ScpiLex) with three-valued verdicts; TLC enumerates and classifies byte strings, replayed on Tokenizer / Node::run"
CHECKS.update({
    "C01": {
        "engine": "spec", "category": "model_checking",
        "text": "Every byte string generated for C04 by TLC (bounded-exhaustive over one representative byte per lexical class incl. NUL/0xFF/TAB/NL and chunks; every single-byte corruption and truncation of ~60 grammar-derived messages incl. channel/numeric lists) is tokenized, executed with Node::run on a permissive tree with a pull-everything handler, and every data token is put through 31 typed conversions and both list iterators to their first error, under catch_unwind with a hang watchdog; the specification is total on all of them (TLC evaluates Decompose on every string) and the implementation must return normally without the internal parser error.",
        "design_ref": "DESIGN.md 3 C01",
        "note": "Monitors: panic (incl. arithmetic overflow in the debug-assertions build), non-termination (step bounds + 20 s watchdog), -300 'Internal parser error'. Memory unsafety that neither panics nor changes a value is invisible. Messages from the C02/C05/C06/C10/C11 enumerations are also executed under catch_unwind by those checks.",
        "technique": _LEX_TECH + " under a totality monitor",
    },
    "C04": {
        "engine": "spec",
        "text": "ScpiLex.tla decomposes a byte string by the 488.2 section 7 grammar and classifies it W (well-formed, with THE element sequence and exact payload ranges), M(kind) (one of the listed malformations) or U (unspecified). TLC generates every concatenation of <= 3-5 symbols over class representatives in four contexts plus every single-point corruption/truncation of ~60 base messages; for W the real token stream (kinds, separators, payload byte ranges recovered from slice pointers, non-decimal values) must equal the decomposition and the message must not be rejected lexically; for M Node::run must fail with a command error.",
        "design_ref": "DESIGN.md 3 C04",
        "note": "U inputs (listed in the evidence assumptions) are checked for totality only, so a doubtful reading of the standard cannot raise an alarm. ScpiLex is cross-checked against ScpiExec's rendering by the C06/C10 enumerations (their messages must execute as specified).",
        "technique": _LEX_TECH,
    },
})

_NUM_TECH = "TLA+ specification of the denoted values on exact digit-sequence arithmetic (Decimal/Numeric); TLC judges rows recorded from the real conversions"
CHECKS.update({
    "C07": {
        "engine": "spec",
        "text": "Numeric.tla states which results an integer conversion may produce: for a decimal literal v (parsed exactly from its bytes by Decimal.tla) any in-range integer within 1/2 + tol(v) of v, and -222 iff some such integer lies outside the type; exact value for non-decimal literals; type bounds for MIN/MAX; a command error for everything else. ~22k boundary-directed rows (all ten types: bounds, zero, halves, powers of two, spellings NR1/NR2/NR3, non-decimal, keywords, other element types) and random literals are recorded from <T as TryFrom<Token>> and judged by TLC.",
        "design_ref": "DESIGN.md 3 C07",
        "note": "Tolerance as the property states (double resp. single resolution, either neighbour at a tie); all arithmetic on digit sequences because TLC integers are 32-bit.",
        "technique": _NUM_TECH,
    },
    "C08": {
        "engine": "spec",
        "text": "Float conversions: the literal (exact decimal) must lie in the rounding interval of the returned float, whose end points (exact decimal midpoints to the neighbouring floats) the harness derives from the result's bit pattern; ties only with an even mantissa; infinities beyond the overflow threshold, zero below half the smallest subnormal, sign preserved. Directed rows sit exactly on, just above and just below midpoints of sampled f32/f64 values (double-rounding detectors), plus extreme exponents and random literals; keywords, ~55 boolean spellings and the accept matrix of the byte-ish targets are judged the same way.",
        "design_ref": "DESIGN.md 3 C08",
        "note": "Trusted base for float rows: IEEE-754 bit layout and a 40-line bignum in the harness. bool/float from a non-decimal numeric is an unspecified cell.",
        "technique": _NUM_TECH,
    },
    "C17": {
        "engine": "spec",
        "text": "Numeric.tla: a character datum denotes MAX/MIN/DEF/UP/DOWN exactly in short or long form (Mnemonic!Compare), anything else converts as the underlying type; resolving yields max / min / default-or--224 / -224 / the value iff min <= v <= max else -222, so a resolved value never leaves [min, max]. Rows for u8, i16, i64, f32, f64 and Time over ~65 elements x (min, max, default) configurations x four builder call orders are judged by TLC.",
        "design_ref": "DESIGN.md 3 C17",
        "note": "Values are compared as decimals printed by Rust's shortest round-trip formatting (order preserving); correctness of the underlying conversion is C07/C08's job.",
        "technique": _NUM_TECH,
    },
})

_RESP_TECH = "TLA+ specification of 488.2 response syntax with an independent decoder per kind (Resp); TLC judges rows recorded from ResponseData / derived enums"
CHECKS.update({
    "C09": {
        "engine": "spec",
        "text": "Resp.tla decodes every emitted text independently (NR1, #H/#Q/#B, NRf with the exact-decimal rounding interval of the original float, SCPI NaN/inf sentinels, quoted strings with doubled quotes, definite blocks whose header states the payload length, character/expression data, comma lists, `code,\"message[;ext]\"` items, enum mnemonics that match their own variant and no other) and requires the denoted value to equal the formatted one; the row also records whether the library's own parser maps the text back. ~24k rows quick (8-bit exhaustive, 16-bit strided, boundary/random 32/64-bit, floats over every exponent, strings over a quote/separator alphabet and every ASCII byte, blocks around every length-digit boundary, all standard errors, 9 enums).",
        "design_ref": "DESIGN.md 3 C09",
        "note": "Known finding (not repairable small): strings containing '\"' come back raw from the library's own parser. Float text is judged against NRf syntax; the full 2^32 f32 sweep is not included.",
        "technique": _RESP_TECH,
    },
    "C20": {
        "engine": "spec",
        "text": "For 9 derived enums (unit and single-field variants, suffix siblings, nested short forms) TLC computes, with Mnemonic!Matches, the variant every candidate character datum designates; from_mnemonic and TryFrom<Token> must agree exactly (-224 for no variant, -104 for every other element type), each variant must report its own mnemonic, and its response text must select the same variant and no other.",
        "design_ref": "DESIGN.md 3 C20",
        "note": "The enum family is fixed at compile time; candidates: every prefix x case x 8 suffix spellings, single edits, random strings.",
        "technique": _RESP_TECH,
    },
})

CHECKS.update({
    "C18": {
        "engine": "spec",
        "text": "Suffix.tla states the general SCPI rule (suffix = [multiplier] unit per quantity, M = milli / MA = mega with the MHZ and MOHM exceptions, named units with their factor and offset to the SI base unit, case-insensitive) and judges ~48k rows recorded from the 14 uom quantity conversions (f32 and f64), Amplitude<> and Db<>: an accepted suffix must denote literal x multiplier x unit (+ offset) within 1e-5, a suffix the rule does not allow for the quantity must be rejected, acceptance must not depend on letter case, PK/PP/RMS and DB* classify without changing the number.",
        "design_ref": "DESIGN.md 3 C18",
        "note": "The unit table is transcribed from memory of SCPI-99 vol. 1 7.1.4; the library may reject combinations the rule allows (subset); ANN is accepted as 365 or 365.25 days.",
        "technique": "TLA+ specification of the suffix rule on exact decimal arithmetic; TLC judges rows recorded from the conversions",
    },
})

CHECKS.update({
    "C19": {
        "engine": "spec",
        "text": "Lists.tla renders abstract channel / numeric lists and states the entries an iterator must yield and, for each single corruption the property lists (leading comma, doubled comma, missing separator, range ends of different dimension, third range end, foreign character), after how many entries the error must surface; TLC enumerates every list of <= 3 entries over ~10 entry templates with every applicable corruption (~35k lists), replayed on ChannelList / NumericList; every yielded spec is also viewed through the dimension iterator, dimension()/len() and all tuple conversions.",
        "design_ref": "DESIGN.md 3 C19",
        "note": "Iterators are driven directly; for a third range end the a:b part may or may not be yielded before the error.",
        "technique": "TLA+ grammar/denotation specification; TLC enumerates lists and corruptions with expected entries, replayed on the iterators",
    },
})

NOT_APPLICABLE = []
