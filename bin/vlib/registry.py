"""The table MANIFEST.json is generated from (bin/mkmanifest)."""

HOOKS = {
    "guard": "scpi_rs_verif",
    "enable": "none needed: every linearization point is observable through public traits (Command, Device, ErrorQueue, Formatter); the guard name is reserved and unused",
    "baseline_off_cmd": "cd /repo && cargo test --workspace --no-fail-fast --offline",
    "source_commits": [],
    "add_only": True,
}

ENGINES_DOC = [
    {"name": "spec", "path": "spec/", "serves_properties": ["C12"],
     "kind_free_text": "TLA+ modules (single source of truth) checked with TLC"},
    {"name": "harness", "path": "harness/", "serves_properties": ["C12"],
     "kind_free_text": "Rust conformance harness: replays TLC-generated behaviours on the real code, records traces/rows for TLC to judge"},
    {"name": "orchestrator", "path": "bin/check", "serves_properties": ["C12"],
     "kind_free_text": "python3 driver: build, TLC, replay/validation, evidence, exit code"},
]

CHECKS = {
    "C12": {
        "engine": "spec",
        "text": "TLC checks the FIFO / capacity / overflow-marker statements on the ErrQueue model for Cap in {1,2,3,unbounded}; every (state, operation) edge of that model is executed on ArrayVec<Error,Cap> and Vec<Error> (exhaustive within the bound), and seeded random histories on nine capacities are validated line by line against the same specification.",
        "design_ref": "DESIGN.md 3 C12",
        "note": "Bounded: 3 error values and Cap+1 accepted pushes for the exhaustive part; ArrayVec instantiated for N in {1,2,3,4,5,8,16,32}; trusts TLC and the harness projection (queue contents -> [code, ext]).",
        "technique": "TLA+ model checking (TLC) + edge replay into the implementation + trace validation",
    },
}

NOT_APPLICABLE = [
    {"property_id": p, "reason": "check under construction in this round (see DESIGN.md 6, construction order); not yet claimed"}
    for p in ["C01", "C02", "C03", "C04", "C05", "C06", "C07", "C08", "C09", "C10", "C11",
              "C13", "C14", "C15", "C16", "C17", "C18", "C19", "C20"]
]
