"""C07 / C08 / C17 — typed conversions (spec: Decimal / Numeric / RowsNumeric)."""
import json, os
from .common import *
from . import rows as R


def txt(b):
    return bytes(b).decode("latin1")


def classify_int(r):
    """structural class of a failing C07 row, used for grouping and for known-finding signatures"""
    o = r["obs"]
    got = "ok" if o["k"] == "ok" else ("panic" if o["code"] == 99999 else str(o["code"]))
    lit = txt(r["lit"])
    shape = "nr1" if lit.lstrip("+-").isdigit() else ("zero" if all(c in "+-0.eE" for c in lit.split("e")[0].split("E")[0]) else "frac-or-exp")
    return {"engine": "num", "t": "int", "kind": r["kind"], "got": got, "shape": shape if r["kind"] == "num" else r["kind"]}


def run_rows(chk, prop, cmd, tier, seed, shards=6):
    wd = workdir(f"{prop}-num")
    rp = os.path.join(wd, "rows.ndjson")
    harness([cmd, "--seed", seed, "--tier", tier, "--out", rp])
    rows = read_ndjson(rp)
    # shard over several JVMs: long digit strings make rows expensive
    n = len(rows)
    bad_idx = []
    k = max(1, min(shards, n // 2000))
    import concurrent.futures as cf
    parts = []
    for s in range(k):
        sp = os.path.join(wd, f"rows-{s}.ndjson")
        write_ndjson(sp, rows[s::k])
        parts.append((s, sp))

    def one(a):
        s, sp = a
        bad, res, cnt = R.judge("RowsNumeric", sp, f"{prop}-rows-{s}", workers=3, timeout=3000)
        return s, bad, res, cnt
    with cf.ThreadPoolExecutor(max_workers=k) as ex:
        for s, bad, res, cnt in ex.map(one, parts):
            chk.add_tlc(f"RowsNumeric[{s}]", res, f"{cnt} rows judged")
            bad_idx += [s + k * i for i, _ in bad]
    return rows, sorted(bad_idx)


def run_c07(chk, tier, seed):
    # the oracle checks itself first: digit-sequence arithmetic and IntFromDecimalOk against native arithmetic / a direct definition
    lim = 300 if tier == "thorough" else 70
    res = tlc("MCDecimal", f"SPECIFICATION Spec\nCONSTANT Limit = {lim}\nINVARIANTS ArithOK RoundOK\n", "C07-mcdecimal", workers=8, timeout=1200)
    require_clean(res, "MCDecimal (self-check of Decimal.tla / Numeric.tla)")
    chk.add_tlc("MCDecimal", res, f"naturals 0..{lim} x 0..{lim}: Add/Sub/Cmp/MulSmall/Shl/signed ops = native; IntFromDecimalOk(u8/i8, a.t literals) = direct rounding definition")
    rows, bad = run_rows(chk, "C07", "num-rows-c07", tier, seed)
    for i in bad:
        r = rows[i]
        o = r["obs"]
        val = ("-" if o["neg"] else "") + ("".join(map(str, o["d"])) or "0") if o["k"] == "ok" else f"error {o['code']}"
        chk.violation(classify_int(r), f"{r['ty']} from {r['kind']} element {r['src']!r}: implementation gave {val}, not an outcome Numeric.tla allows (exactly rounded value, or -222 iff a rounding candidate is out of range)", r)
    chk.count(evaluations=len(rows), traces=len(rows))
    chk.cov["distinct_nontrivial"] = len({(r["ty"], r["src"]) for r in rows if r["kind"] in ("num", "hex")})
    for r in rows[5:8]:
        chk.sample({"ty": r["ty"], "literal": r["src"], "obs": {k: r["obs"][k] for k in ("k", "code", "neg", "d")}})
    chk.cov["rule"] = ("per integer type: every value within 2 of MIN, MAX, 0, MAX/2 in tenths (and hundredths around the halves) in NR1/NR2/NR3 spellings (shifted point, +-exponent, leading zeros, '+', bare '.'), "
                       "zero in 12 spellings, tiny/huge magnitudes, 2^k+-1 for k=7..64 as x, x.0, x.5, #H/#Q/#B of bounds+-1, MIN/MAX keywords and near misses, one element of every other type, seeded random literals; "
                       "distinct non-trivial = distinct (type, numeric literal) pairs")
    chk.assumptions += ["tolerance: |v|*1e-15 (32/64-bit targets) resp. 2|v|*1e-7 (8/16-bit targets) on top of the half-unit band; either neighbour at a tie"]


def run_c08(chk, tier, seed):
    rows, bad = run_rows(chk, "C08", "num-rows-c08", tier, seed, shards=10)
    for i in bad:
        r = rows[i]
        o = r["obs"]
        if r["t"] == "flt":
            sig = {"engine": "num", "t": "flt", "w": r["w"], "kind": r["kind"], "got": o["cls"] if o["k"] == "ok" else str(o["code"])}
            what = f"f{r['w']} from {r['kind']} element {r['src'][:80]!r}: got {o['cls'] if o['k']=='ok' else 'error '+str(o['code'])} (neg={o['neg']}), rounding interval [{txt(o['lo'])[:40]}.., {txt(o['hi'])[:40]}..] does not contain the literal / outcome not allowed"
        elif r["t"] == "bool":
            sig = {"engine": "num", "t": "bool", "kind": r["kind"], "got": ("".join(map(str, o["d"])) or "0") if o["k"] == "ok" else str(o["code"])}
            what = f"bool from {r['kind']} element {r['src']!r}: got {sig['got']}"
        else:
            sig = {"engine": "num", "t": "acc", "target": r["target"], "kind": r["kind"], "got": "ok" if o["k"] == "ok" else str(o["code"])}
            what = f"{r['target']} from {r['kind']} element {r['src']!r}: got {sig['got']} (same payload: {o['same']})"
        chk.violation(sig, what, r)
    chk.count(evaluations=len(rows), traces=len(rows))
    chk.cov["distinct_nontrivial"] = len({(r["t"], r.get("w"), r.get("target"), r["src"]) for r in rows})
    chk.cov["by_kind"] = {t: sum(1 for r in rows if r["t"] == t) for t in ("flt", "bool", "acc")}
    for r in [rows[0], rows[len(rows) // 2]]:
        chk.sample({"t": r["t"], "literal": r["src"][:60], "obs_cls": r["obs"]["cls"], "k": r["obs"]["k"]})
    chk.cov["rule"] = ("floats: for sampled f32/f64 values (incl. subnormals, MAX, powers of two) the exact decimal midpoints to both neighbours and one last-place unit either side of them, in plain and exponent spelling; "
                       "17- and 30-digit literals, exponents +-400, zero spellings, random literals; keywords in all forms and near misses; booleans in ~55 spellings; the accept matrix of &[u8]/&str/Arbitrary/Character/Expression over all element types")
    chk.assumptions += ["the neighbours of a float come from its bit pattern and a 40-line exact bignum in the harness; TLC does the comparison on digit sequences",
                        "unspecified cells: bool/float target from a non-decimal numeric; bool from a numeric beyond the isize range may be true or -222"]


def run_c17(chk, tier, seed):
    rows, bad = run_rows(chk, "C17", "num-rows-c17", tier, seed)
    for i in bad:
        r = rows[i]
        f = r["final"]
        chk.violation({"engine": "num", "t": "nv", "variant": r["variant"], "final": "ok" if f["k"] == "ok" else str(f["code"]), "order": r["order"] if r["variant"] == "def" else -1},
                      f"NumericValue<{r['ty']}> from {r['kind']} element {r['src']!r} with config #{r['cfg']} (builder call order {r['order']}): parsed as {r['variant']}, resolved to {f}", r)
    chk.count(evaluations=len(rows), traces=len(rows))
    chk.cov["distinct_nontrivial"] = len({(r["ty"], r["src"], r["cfg"], r["order"]) for r in rows})
    for r in rows[3:5]:
        chk.sample({k: r[k] for k in ("ty", "src", "cfg", "order", "variant", "final")})
    chk.cov["exhaustive"] = False
    chk.cov["rule"] = ("elements: the five keywords in short/long/mixed case and near misses (MAXI, DEFA, UPP, MAX1 ...), numbers on/inside/outside the bounds, NAN/INF/NINF, suffixed numbers, other element types; "
                       "types u8, i16, i64, f32, f64, Time; (min, max, default) configurations incl. type bounds, min = max, no default, infinite bounds; four builder call orders per configuration")


def run(chk, tier, seed):
    {"C07": run_c07, "C08": run_c08, "C17": run_c17}[chk.prop](chk, tier, seed)
