"""C03 — mnemonic matching (spec: Mnemonic / MCMnemonic / RowsMnemonic)."""
import json, os
from .common import *
from . import rows as R

DEFS = ["A", "AB", "ABe", "ABef", "AB2", "ABe2", "ABe10", "Ae1", "BAe", "ABEe", "B12", "Abe"]


def tla_seq(bs):
    return "<<" + ", ".join(str(b) for b in bs) + ">>"


def run(chk, tier, seed):
    th = tier == "thorough"
    wd = workdir("C03")
    # A1: exhaustive candidates over a small alphabet against a dozen definitions
    alphabet = [ord(c) for c in "AaBbeE120"]
    maxlen = 5 if th else 4
    defs = [list(d.encode()) for d in DEFS]
    text = ("---- MODULE MCMnemonic_C03 ----\nEXTENDS MCMnemonic\n"
            f"C_Alphabet == {{{', '.join(map(str, alphabet))}}}\n"
            f"C_Defs == <<{', '.join(tla_seq(d) for d in defs)}>>\n====\n")
    cfg = f"SPECIFICATION Spec\nCONSTANTS\n  Alphabet <- C_Alphabet\n  Defs <- C_Defs\n  MaxLen = {maxlen}\nINVARIANTS Emit TwinOK\n"
    raw = os.path.join(wd, "cases.raw")
    res = tlc("MCMnemonic_C03", cfg, "C03-mc", workers=8, gen_text=text, raw_out=raw)
    require_clean(res, "MCMnemonic (enumeration + scan twin)")
    chk.add_tlc("MCMnemonic", res, f"all candidates of length <= {maxlen} over {len(alphabet)} bytes x {len(defs)} definitions; TwinOK: lock-step scan = declarative Compare")
    out, _, _ = harness(["mnem-replay", "--cases", raw, "--defs", json.dumps(defs)])
    os.remove(raw)
    summary = None
    for line in out.splitlines():
        v = json.loads(line)
        if v.get("summary"):
            summary = v
        else:
            exp, got = v.get("expect"), v.get("got")
            kind = "panic" if v["bad"] == "panic" else ("false-accept" if got["match"] > exp["match"] or got["compare"] > exp["compare"] or got["hdr"] > exp["match"] else "false-reject")
            chk.violation({"engine": "mnem-replay", "kind": kind},
                          f"definition {v['def']!r} candidate {v['cand']!r}: spec {exp}, implementation {got or v.get('msg')}", v)
    if not summary or summary["cases"] != res.distinct:
        raise ToolError(f"mnem-replay incomplete: {summary} vs {res.distinct} states")
    if summary["positives"] < 20:
        raise ToolError("vacuity: almost no matching pairs enumerated")
    chk.count(evaluations=summary["pairs"], traces=summary["pairs"])
    chk.cov["distinct_nontrivial"] += summary["positives"]
    chk.sample({"replayed_pairs": summary["pairs"], "matching_pairs": summary["positives"], "definitions": DEFS})
    # B2: directed + random rows on SCPI-shaped definitions up to 12 characters
    rp = os.path.join(wd, "rows.ndjson")
    harness(["mnem-rows", "--seed", seed, "--tier", tier, "--out", rp])
    bad, res2, n = R.judge("RowsMnemonic", rp, "C03-rows", workers=8)
    chk.add_tlc("RowsMnemonic", res2, f"{n} recorded (definition, candidate) rows judged against Matches/Compare")
    rows = read_ndjson(rp)
    for i, _ in bad:
        r = rows[i]
        d, c = bytes(r["def"]).decode("latin1"), bytes(r["cand"]).decode("latin1")
        chk.violation({"engine": "mnem-rows", "kind": "panic" if r["match"] < 0 else "verdict"},
                      f"definition {d!r} candidate {c!r}: implementation compare={r['compare']} match={r['match']} header={r['hdr']} chardata={r['chr']} contradicts Mnemonic.tla", r)
    chk.count(evaluations=n, traces=n)
    chk.cov["distinct_nontrivial"] += sum(1 for r in rows if r["match"] == 1)
    for r in rows[100:102]:
        chk.sample({"def": bytes(r["def"]).decode("latin1"), "cand": bytes(r["cand"]).decode("latin1"), "match": r["match"], "compare": r["compare"]})
    chk.cov["exhaustive"] = True
    chk.cov["rule"] = (f"A1: every string of length <= {maxlen} over 'AaBbeE120' against {len(defs)} definitions (exhaustive); "
                       "B2: for ~170 (quick) SCPI-shaped definitions every prefix x 4 case patterns x 9 suffix spellings, all single-edit neighbours of short/long/written form, and seeded random pairs; "
                       "non-trivial = pairs that match")
    chk.assumptions += ["definitions are of SCPI shape (upper-case short form, lower-case remainder, optional numeric suffix)"]
