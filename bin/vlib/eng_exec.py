"""C02 / C05 / C06 / C10 / C11 — dispatcher (spec: ScpiTree / ScpiExec / MCExec)."""
import json, os, itertools
from .common import *


# ------------------------------------------------------------------ tree library
def T(*kids):
    return {"kind": "branch", "name": "", "dflt": False, "kids": list(kids)}


def B(name, *kids, d=False):
    return {"kind": "branch", "name": name, "dflt": d, "kids": list(kids)}


def L(name, d=False):
    return {"kind": "leaf", "name": name, "dflt": d, "kids": []}


TREES = {
    # flat + common commands
    "flat": T(L("*IDN"), L("*RST"), L("ALPHa"), L("Bc"), L("Bc2"), B("DEEP", L("ALPHa"), L("X"))),
    # chain with a leaf at depth 4
    "chain": T(B("A", B("Bc", B("Cde", L("D"), L("E")), L("F")), L("G")), L("H")),
    # default branch then default leaf, plus named siblings at each level
    "defaults": T(B("A", B("Bc", L("Cd", d=True), L("X"), d=True), L("Y")), L("Z")),
    # CONFigure-like: anonymous default leaf beside a default branch
    "anon": T(B("CONF", L("", d=True), B("SCAL", L("VOLT"), L("CURR"), d=True)), L("*CLS")),
    # the same with the default branch listed before the anonymous default leaf, and a nested default leaf elsewhere
    "anon2": T(B("CONF", B("SCAL", L("VOLT"), L("CURR"), d=True), L("", d=True)),
               B("MEAS", L("X"), B("VOLT", L("DC", d=True), L("AC"), d=True)), L("*CLS")),
    # numeric-suffixed siblings
    "suffix": T(B("OUTP", L("X")), B("OUTP2", L("X"), L("Y")), B("OUTP10", L("X", d=True)), L("CH1"), L("CH2")),
    # default leaf listed last; same name at two levels
    "order": T(B("A", L("X"), L("Y"), L("Zed", d=True)), B("B", B("A", L("A")), L("C")), L("X")),
    # root-level default branch with nested default branch
    "rootdef": T(B("D", L("P"), B("Q", L("R"), B("S", L("T"), d=True)), d=True), L("E")),
    # two directly nested default branches with named nodes below both (SOURce:VOLTage[:LEVel][:IMMediate]:OFFSet)
    "nested2": T(B("SOUR", B("LEV", B("IMM", L("OFFS"), L("AMPL", d=True), d=True), L("Q"), d=True), L("R")), L("*CLS")),
}


def flatten(tree):
    """-> dict of sequences indexed by node id (1 = root), children in order"""
    parent, kind, name, dflt = [0], ["branch"], [""], [False]

    def rec(n, pid):
        for k in n["kids"]:
            parent.append(pid)
            kind.append(k["kind"])
            name.append(k["name"])
            dflt.append(k["dflt"])
            me = len(parent)
            rec(k, me)
    rec(tree, 1)
    return {"parent": parent, "kind": kind, "name": [list(x.encode()) for x in name], "dflt": dflt}


def tla_bytes(b):
    if isinstance(b, str):
        b = b.encode("latin1")
    return "<<" + ", ".join(str(x) for x in b) + ">>"


def tla_tree(ft):
    return ("[parent |-> <<%s>>, kind |-> <<%s>>, name |-> <<%s>>, dflt |-> <<%s>>]" % (
        ", ".join(map(str, ft["parent"])), ", ".join('"%s"' % k for k in ft["kind"]),
        ", ".join(tla_bytes(bytes(n)) for n in ft["name"]), ", ".join("TRUE" if d else "FALSE" for d in ft["dflt"])))


def spellings(name, rich):
    """candidate spellings of a defined mnemonic (inputs only; the verdict comes from Mnemonic.tla)"""
    if name.startswith("*") or name == "":
        return [name] if name else []
    i = len(name)
    while i > 0 and name[i - 1].isdigit():
        i -= 1
    alpha, suf = name[:i], name[i:]
    short = "".join(itertools.takewhile(lambda c: c.isupper() or c.isdigit(), alpha))
    out = [short + suf, alpha.lower() + suf]
    if rich:
        out += [alpha.upper() + suf, short.lower() + suf]
        if suf in ("", "1"):
            out += [short + ("1" if suf == "" else ""), alpha + ("1" if suf == "" else "")]
        out += [alpha[:len(short) + 1] + suf] if len(alpha) > len(short) + 1 else []   # illegal partial long form
    return list(dict.fromkeys(out))


def root_paths(tree):
    """proposed valid first headers: every root-to-leaf name path with any subset of default nodes omitted,
    canonical spelling (inputs only: TLC still filters them with Desig)"""
    out = []

    def rec(n, acc):
        for k in n["kids"]:
            sp = spellings(k["name"], False)
            opts = []
            if sp:
                opts.append(acc + [sp[0]])
            if k["dflt"] or not sp:
                opts.append(acc)
            for o in opts:
                if k["kind"] == "leaf":
                    if o:
                        out.append(o)
                else:
                    rec(k, o)
    rec(tree, [])
    uniq = []
    for o in out:
        if o not in uniq:
            uniq.append(o)
    return uniq


def cands_for(tree, rich):
    names = []

    def rec(n):
        for k in n["kids"]:
            names.append(k["name"])
            rec(k)
    rec(tree)
    out = []
    for n in dict.fromkeys(names):
        out += spellings(n, rich)
    out.append("ZZ")
    return list(dict.fromkeys(out))


# ------------------------------------------------------------------ TLA text helpers
def H(pulls=(), res=(0, 0), hdr="", items=(), partial=False):
    return "[pulls |-> <<%s>>, res |-> [code |-> %d, ext |-> %d], hdr |-> %s, items |-> <<%s>>, partial |-> %s]" % (
        ", ".join('"%s"' % p for p in pulls), res[0], res[1], tla_bytes(hdr),
        ", ".join(tla_bytes(i) for i in items), "TRUE" if partial else "FALSE")


def D(text, kind, p1, p2=""):
    return "[text |-> %s, kind |-> \"%s\", p1 |-> %s, p2 |-> %s]" % (tla_bytes(text), kind, tla_bytes(p1), tla_bytes(p2))


def U(path, lead=0, query=False, data=(), h=None, lex="ok", raw=""):
    if h is None:
        h = H(items=("1",) if query else ())
    return "[lead |-> %d, path |-> <<%s>>, query |-> %s, data |-> <<%s>>, lex |-> \"%s\", raw |-> %s, h |-> %s]" % (
        lead, ", ".join(tla_bytes(p) for p in path), "TRUE" if query else "FALSE", ", ".join(data), lex, tla_bytes(raw), h)


DATA = {
    "num": D("1", "num", "1"), "num2": D("-2.5e3", "num", "-2.5e3"), "chr": D("ABC", "chr", "ABC"),
    "str": D("'a;b'", "str", "a;b"), "str2": D('"x,""y"', "str", 'x,""y'), "blk": D("#13a;b", "blk", "a;b"),
    "expr": D("(1,2)", "expr", "1,2"), "hex": D("#HFF", "hex", "255"), "numsuf": D("10 V", "numsuf", "10", "V"),
    "oct": D("#Q17", "hex", "15"), "blk0": D("#10", "blk", ""), "dot": D(".5", "num", ".5"), "dot2": D("-.25e3", "num", "-.25e3"),
    # character data that other layers give a meaning to (<numeric_value> keywords, booleans): plain elements for the dispatcher
    "numsuf2": D("2.5 mVpk", "numsuf", "2.5", "mVpk"), "chr12": D("ABCDEFGHIJKL", "chr", "ABCDEFGHIJKL"),
    "def": D("DEFault", "chr", "DEFault"), "max": D("MAX", "chr", "MAX"), "on": D("ON", "chr", "ON"),
}


def module(name, ft, cands, defs, first, nxt):
    return (f"---- MODULE {name} ----\nEXTENDS MCExec\n"
            f"C_Tree == {tla_tree(ft)}\n"
            f"C_Cands == {{{', '.join(tla_bytes(c) for c in cands)}}}\n"

            + "\n".join(defs) + f"\nC_First == {first}\nC_Next == {nxt}\n====\n")


def cfg(maxunits, endings, caps, emit=True, lexagrees=True):
    return ("SPECIFICATION Spec\nCONSTANTS\n  Tree <- C_Tree\n  MCands <- C_Cands\n  TwinAll = FALSE\n  Cands <- C_Cands\n  FirstUnits <- C_First\n  NextUnits <- C_Next\n"
            f"  MaxUnits = {maxunits}\n  Endings <- C_Endings\n  Caps <- C_Caps\n  Emit = {'TRUE' if emit else 'FALSE'}\n"
            "INVARIANTS EmitCase Order CurIsBranch Twin OwnData Framing Valid" + (" LexAgrees" if lexagrees else "") + "\nPROPERTIES Frozen\n"), \
           [f"C_Endings == {{{', '.join(tla_bytes(e) for e in endings)}}}", f"C_Caps == {{{', '.join(map(str, caps))}}}"]


def run_projection(chk, prop, pname, ft, cands, defs, first, nxt, maxunits, endings, caps, extra_args=(), workers=8):
    wd = os.path.join(WORK, f"{prop}-exec")
    os.makedirs(wd, exist_ok=True)
    c, d2 = cfg(maxunits, endings, caps, lexagrees=(prop != "C02"))
    modname = f"MCExec_{prop}_{pname}".replace("-", "_")
    text = module(modname, ft, cands, defs + d2, first, nxt)
    raw = os.path.join(wd, f"{pname}.raw")
    res = tlc(modname, c, f"{prop}-mc-{pname}", workers=workers, gen_text=text, raw_out=raw, timeout=3000)
    require_clean(res, f"MCExec[{pname}] (enumeration + Order/Frozen/Twin/OwnData/Framing/Valid)")
    chk.add_tlc(f"MCExec[{pname}]", res, "messages enumerated and executed in the specification; invariants checked on every state")
    tp = os.path.join(wd, f"{pname}.tree.json")
    with open(tp, "w") as f:
        json.dump(ft, f)
    out, _, _ = harness(["exec-replay", "--tree", tp, "--cases", raw] + list(extra_args))
    os.remove(raw)
    summary = None
    for line in out.splitlines():
        v = json.loads(line)
        if v.get("summary"):
            summary = v
            continue
        c0 = v["case"]
        got = v["got"]
        sig = {"engine": "exec-replay", "why": v["bad"], "proj": pname.split("-")[0]}
        if "ret" in v["bad"]:
            sig["expected"] = "ok" if c0["err"]["lo"] == 0 else f"{c0['err']['lo']}..{c0['err']['hi']}"
            sig["got"] = (got.get("ret") or {}).get("code", "ok") if isinstance(got, dict) else "panic"
        slim = {k: c0[k] for k in ("cap", "err", "opt", "nunits")}
        slim["expected_calls"] = [{"leaf": x["leaf"], "form": x["form"], "got": len(x["got"])} for x in c0["calls"]]
        slim["expected_out"] = bytes(c0["out"]).decode("latin1")
        chk.violation(sig, f"message {v['message']!r} (cap {v['cap']}, tree {pname}): expected {json.dumps(slim)}; implementation gave {json.dumps(got)[:600]}",
                      {"message": v["message"], "bytes": c0["bytes"], "scripts": c0["scripts"], "tree": pname, "expected": slim, "got": got})
    if not summary or summary["executed"] != summary["cases"] or summary["cases"] == 0:
        raise ToolError(f"exec-replay incomplete: {summary}")
    chk.count(evaluations=summary["executed"], traces=summary["executed"])
    chk.cov["distinct_nontrivial"] += summary["failing"] + summary["multi_unit"]
    for s in summary["samples"][:1]:
        chk.sample({"tree": pname, **s})
    return summary


# ------------------------------------------------------------------ projections
def headers_defs(maxlen):
    return [f"Hdrs(n) == UNION {{[1..k -> C_Cands] : k \\in 1..n}}",
            "H0(q) == [pulls |-> <<>>, res |-> [code |-> 0, ext |-> 0], hdr |-> <<>>, items |-> IF q THEN <<<<49>>>> ELSE <<>>, partial |-> FALSE]",
            "Mk(l, p, q) == [lead |-> l, path |-> p, query |-> q, data |-> <<>>, lex |-> \"ok\", raw |-> <<>>, h |-> H0(q)]",
            "Commons == {c \\in C_Cands : c # <<>> /\\ c[1] = 42}",
            "Plain == {c \\in C_Cands : c = <<>> \\/ c[1] # 42}",
            "PHdrs(n) == UNION {[1..k -> Plain] : k \\in 1..n}"]


def random_tree(rnd, idx):
    """a random command tree (inputs only; TLC decides whether it is SCPI-valid)"""
    names = ["A", "Bc", "Bc2", "Cde", "X", "Xy1", "OUTP", "OUTP3", "Zed"]

    def kids(depth, budget):
        out = []
        n = rnd.randint(1, 3)
        used = set()
        for _ in range(n):
            if budget[0] <= 0:
                break
            nm = rnd.choice(names)
            if nm in used:
                continue
            used.add(nm)
            budget[0] -= 1
            d = rnd.random() < 0.3
            if depth < 3 and rnd.random() < 0.5 and budget[0] > 0:
                sub = kids(depth + 1, budget)
                if sub:
                    out.append(B(nm, *sub, d=d))
                    continue
            if rnd.random() < 0.1 and d:
                nm = ""
            out.append(L(nm, d=d))
        rnd.shuffle(out)
        return out
    t = T(*kids(1, [7]))
    if rnd.random() < 0.5:
        t["kids"].append(L("*T"))
    return t


def tree_is_valid(ft, cands, tag):
    """TLC evaluates ValidTree for the candidate mnemonics (no message is generated)"""
    c, d2 = cfg(0, [""], [-1], emit=False, lexagrees=False)
    c = c.replace("INVARIANTS EmitCase Order CurIsBranch Twin OwnData Framing Valid", "INVARIANTS Valid").replace("PROPERTIES Frozen\n", "")
    mod = f"MCExec_valid_{tag}"
    res = tlc(mod, c, f"C02-valid-{tag}", workers=1, gen_text=module(mod, ft, cands, d2, "{}", "{}"), timeout=300)
    return not res.errors


def run_c02(chk, tier, seed):
    th = tier == "thorough"
    total = 0
    trees = dict(TREES)
    import random
    rnd = random.Random(seed * 7919 + 13)
    want = 12 if th else 2
    tries = 0
    while want > 0 and tries < 60:
        tries += 1
        t = random_tree(rnd, tries)
        ft = flatten(t)
        if len(ft["kind"]) < 4:
            continue
        if tree_is_valid(ft, cands_for(t, rich=False), f"r{tries}"):
            trees[f"rand{tries}"] = t
            want -= 1
    chk.cov["random_trees"] = [k for k in trees if k.startswith("rand")]
    for name, tree in trees.items():
        ft = flatten(tree)
        cands = cands_for(tree, rich=False)
        defs = headers_defs(3)
        depth = 3
        # singles: every header up to `depth` mnemonics x leading colon x form (+ common commands in both forms)
        all_units = (f"{{Mk(l, p, q) : l \\in {{0, 1}}, p \\in PHdrs({depth}), q \\in BOOLEAN}} "
                     f"\\cup {{Mk(0, <<c>>, q) : c \\in Commons, q \\in BOOLEAN}}")
        fp = ", ".join("<<" + ", ".join(tla_bytes(m) for m in p) + ">>" for p in root_paths(tree))
        first = f"{{u \\in {{Mk(l, p, FALSE) : l \\in {{0, 1}}, p \\in {{{fp}}}}} : Desig(Root, u.path) # {{}} /\\ (u.lead = 1 => ~IsCommon(u))}}"
        nxt = (f"{{Mk(0, p, FALSE) : p \\in PHdrs(2)}} \\cup {{Mk(1, p, TRUE) : p \\in PHdrs({2 if th else 1})}} "
               f"\\cup {{Mk(0, <<c>>, FALSE) : c \\in Commons}}")
        # (a) all single-unit messages, valid or not
        s1 = run_projection(chk, "C02", f"{name}-single", ft, cands, defs, all_units, "{}", 1, ["", "\n"], [-1], ["--history"])
        # (b) valid first unit followed by any second (and third in thorough) unit: relative resolution
        s2 = run_projection(chk, "C02", f"{name}-multi", ft, cands, defs, first, nxt, 2, [""], [-1], ["--history"])
        total += s1["executed"] + s2["executed"]
        if not th and name in ("flat", "anon2"):
            # three units with a common command in the middle: the level must survive it (and a leading colon before it)
            nxt3 = "{Mk(0, p, FALSE) : p \\in PHdrs(1)} \\cup {Mk(0, <<c>>, FALSE) : c \\in Commons}"
            s4 = run_projection(chk, "C02", f"{name}-triple", ft, cands, defs, first, nxt3, 3, [""], [-1])
            total += s4["executed"]
        if th and name in ("defaults", "anon2", "rootdef", "suffix", "flat"):
            # three units: the level must follow the *previous* unit, not an earlier one
            nxt3 = "{Mk(l, p, FALSE) : l \\in {0, 1}, p \\in PHdrs(1)} \\cup {Mk(0, <<c>>, FALSE) : c \\in Commons} \\cup {Mk(0, p, TRUE) : p \\in PHdrs(2)}"
            s4 = run_projection(chk, "C02", f"{name}-triple", ft, cands, defs, first, nxt3, 3, [""], [-1])
            total += s4["executed"]
    # a branch with 258 children (positions beyond 255): headers over a few of them and their neighbours
    wide = T(B("OUTP", *[L(f"CH{i}") for i in range(1, 259)]), L("X"))
    ft = flatten(wide)
    cands = ["OUTP", "outp", "CH1", "CH", "CH2", "CH44", "CH255", "CH256", "CH257", "ch257", "CH258", "CH259", "CH513", "X", "ZZ"]
    defs = headers_defs(2)
    all_units = "{Mk(l, p, q) : l \\in {0, 1}, p \\in PHdrs(2), q \\in BOOLEAN}"
    s5 = run_projection(chk, "C02", "wide-single", ft, cands, defs, all_units, "{}", 1, [""], [-1], ["--history"])
    total += s5["executed"]
    # spelling richness: every spelling variant on valid headers of one tree each
    for name in ("defaults", "suffix", "flat"):
        tree = TREES[name]
        ft = flatten(tree)
        cands = cands_for(tree, rich=True)
        defs = headers_defs(2)
        all_units = "{Mk(l, p, q) : l \\in {0}, p \\in PHdrs(2), q \\in {TRUE}}"
        s3 = run_projection(chk, "C02", f"{name}-spell", ft, cands, defs, all_units, "{}", 1, [""], [-1])
        total += s3["executed"]
    chk.cov["exhaustive"] = True
    chk.cov["rule"] = ("per library tree: every single-unit message whose header is any sequence of <= 3 candidate mnemonics (2 spellings per node name + a foreign name) x leading colon x event/query, "
                       "and every 2-unit (3 thorough) message with a valid first unit; spelling projection: all short/long/case/explicit-1/partial-long spellings on <= 2-mnemonic headers; "
                       "each message is also run after the previous message on the same tree; non-trivial = failing or multi-unit messages")
    chk.assumptions += ["trees are SCPI-valid (ValidTree checked by TLC for every tree); %d library trees + seeded random trees that TLC found valid" % len(TREES)]


SMALL = T(L("*OPC"), L("A"), L("Bq"), B("GRP", L("X"), L("Y", d=True)),
          B("SENS", B("VOLT", L("DC", d=True), L("AC"), d=True), L("CURR")))   # tree for C05/C06/C10/C11
ENDINGS = ["", "\n", " ", " \n", ";", ";\n", "; "]


def set_of(units):
    return "{" + ",\n  ".join(units) + "}"


def fault_units():
    """one fault per unit (DESIGN 2.4-3)"""
    ok = [U(["A"]), U(["Bq"], query=True, h=H(items=("7",))), U(["GRP", "X"], data=[DATA["num"]], h=H(pulls=["req"])),
          U(["*OPC"], query=True, h=H(items=("1",))), U(["A"], data=[DATA["chr"], DATA["str"]], h=H(pulls=["req", "opt"]))]
    faults = []
    for code, ext in [(-100, 0), (-200, 0), (-222, 0), (-300, 0), (-400, 0), (5, 0), (-113, 0), (-310, 1)]:
        faults.append(U(["A"], h=H(res=(code, ext))))
    # a handler that returns Err(NoError) (number 0, here with extended text): the unit failed, whatever the number
    faults.append(U(["A"], h=H(res=(0, 1))))
    faults.append(U(["Bq"], query=True, h=H(res=(0, 2), items=("1",), partial=True)))
    # a handler failing with -113 itself, next to a default branch that could "explain" the header
    faults.append(U(["SENS", "CURR"], h=H(res=(-113, 0))))
    faults.append(U(["SENS", "CURR"], query=True, h=H(res=(-113, 1))))
    faults.append(U(["Bq"], query=True, h=H(res=(-221, 2), items=("12",), partial=True)))     # error after a partial response
    faults.append(U(["Bq"], query=True, h=H(res=(-230, 0))))
    for raw in ["A::X", "A,", ":;", "GRP:X:", "*OPC:A", "A\xff", "ABCDEFGHIJKLM", ":1", "GRP:,X"]:
        faults.append(U(["A"], lex="hdr", raw=raw))
    # lexical fault in data the handler pulls / does not pull
    for raw in ["A 1$", "A 'abc", "A #", "A 1,,2", "A #3999ab", "A #H", "A 1 2", "A ABCDEFGHIJKLM", "A \"x\"y", "A 1,", "A 1:2", "A ,1", "A , 1,2"]:
        faults.append(U(["A"], lex="data", raw=raw, h=H(pulls=["req"])))
        faults.append(U(["A"], lex="data", raw=raw, h=H()))
    # ... and a handler that reads leniently (`while let Ok(Some(x)) = next_optional_..`): a swallowed read error must not hide the fault
    for raw in ["A 1,", "A 1,:2", "A \xb5", "A 1,,2", "A 'abc", "A 1 2"]:
        faults.append(U(["A"], lex="data", raw=raw, h=H(pulls=["lopt", "lopt", "lopt"])))
    # a query whose first / middle datum cannot be formatted although later ones can
    faults.append(U(["Bq"], query=True, h=H(items=("\x80", "1"))))
    faults.append(U(["GRP"], query=True, h=H(items=("1", "\x80", "2"))))
    faults.append(U(["ZZ"]))                       # undefined header
    faults.append(U(["GRP", "ZZ"], query=True))
    faults.append(U(["A", "X"]))                   # past a leaf
    faults.append(U(["A"], h=H(pulls=["req"])))    # -109
    faults.append(U(["A"], data=[DATA["num"]], h=H(pulls=["req", "opt", "req"])))
    faults.append(U(["A"], data=[DATA["num"]]))    # -108
    faults.append(U(["Bq"], query=True, data=[DATA["str"], DATA["num"]], h=H(pulls=["req"], items=("3",))))
    return ok, faults


def run_c05(chk, tier, seed):
    th = tier == "thorough"
    ft = flatten(SMALL)
    cands = cands_for(SMALL, rich=False)
    ok, faults = fault_units()
    defs = [f"OkUnits == {set_of(ok)}", f"FaultUnits == {set_of(faults)}"]
    k = 4 if th else 3
    # every message of <= k units over ok-units and single-fault units; then buffer exhaustion at every byte position
    s = run_projection(chk, "C05", "faults", ft, cands, defs, "OkUnits \\cup FaultUnits", "OkUnits \\cup FaultUnits", 2, ["", "\n"], [-1])
    s2 = run_projection(chk, "C05", "faults3", ft, cands, defs, "OkUnits", "OkUnits \\cup FaultUnits", k, [""], [-1])
    okq = [U(["Bq"], query=True, h=H(items=("7", "'a;b'"))), U(["A"]), U(["GRP"], query=True, h=H(hdr="GRP:Y", items=("42",))),
           U(["*OPC"], query=True, h=H(items=("1",))),
           U(["SENS", "AC"], query=True, h=H(items=()))]        # a silent query: writes nothing, never calls finish()
    defs2 = [f"Q == {set_of(okq)}"]
    s3 = run_projection(chk, "C05", "capacity", ft, cands, defs2, "Q", "Q", 3, ["", ";"], list(range(0, 34)))
    chk.cov["exhaustive"] = True
    chk.cov["rule"] = (f"all messages of <= 2 units over {len(ok)} fault-free and {len(faults)} single-fault units (handler errors of 8 codes incl. extended, error after partial response, "
                       f"8 malformed headers, 9 malformed data x pulled/not pulled, undefined headers, -109, -108), all messages of <= {k} units with a fault-free first unit, and all <= 3-unit query messages "
                       "x every buffer capacity 0..33; checked: calls (order, count, form), returned error, error hook called exactly once with that error; non-trivial = failing or multi-unit")
    chk.assumptions += ["formatter faults are injected by capacity exhaustion of ArrayVec<u8,N> (ResponseUnit has no public constructor)",
                        "a lexical fault in a unit's data may surface before or after that unit's handler is entered (lazy lexer); both are accepted"]


def run_c06(chk, tier, seed):
    th = tier == "thorough"
    ft = flatten(SMALL)
    cands = cands_for(SMALL, rich=False)
    dl = [[]] + [[k] for k in DATA] + [["num", "str"], ["str", "blk"], ["chr", "hex"], ["expr", "numsuf"], ["blk", "num"], ["str2", "chr"],
                                       ["num", "chr", "str"], ["blk", "expr", "hex"], ["num", "dot"], ["str", "dot2", "dot"], ["expr", "num"], ["expr", "chr", "str"],
                                       ["num", "def", "num2"], ["def", "max"], ["on", "def"], ["chr12"], ["num", "chr12"]]
    if th:
        dl += [[a, b] for a in DATA for b in DATA if a != b][:40]
    pulls = [p for n in range(0, 5 if th else 4) for p in itertools.product(["req", "opt"], repeat=n)]
    units, small = [], []
    for d in dl:
        for p in pulls:
            units.append(U(["A"], data=[DATA[x] for x in d], h=H(pulls=list(p))))
            if len(p) <= (3 if th else 2) and len(d) <= 2:
                small.append(units[-1])
        units.append(U(["Bq"], query=True, data=[DATA[x] for x in d], h=H(pulls=["opt"] * len(d), items=("0",))))
    # a branch addressed by itself, in query form, with parameters for its default leaf (directly and through a nested default branch)
    for path in (["GRP"], ["SENS"], ["SENS", "VOLT"]):
        units.append(U(path, query=True, data=[DATA["num"]], h=H(pulls=["req"], items=("1",))))
        units.append(U(path, query=True, data=[DATA["num"], DATA["chr"], DATA["str"]], h=H(pulls=["req", "opt"], items=("2",))))
        units.append(U(path, query=True, data=[DATA["num2"]], h=H(items=("3",))))
        units.append(U(path, data=[DATA["str"], DATA["num"]], h=H(pulls=["req", "req", "opt"])))
    many = [DATA["num"], DATA["chr"]] * 128 + [DATA["str"]]        # 257 data elements in one unit
    for npull in (257, 256, 258):
        units.append(U(["A"], data=many, h=H(pulls=["req"] * npull)))
    okq = [U(["Bq"], query=True, h=H(items=("7",))), U(["GRP", "X"], data=[DATA["chr"]], h=H(pulls=["req"]))]
    defs = [f"Var == {set_of(units)}", f"Okq == {set_of(okq)}", f"VarSmall == {set_of(small)}"]
    # first / last position with every ending; middle position between two fixed units
    s1 = run_projection(chk, "C06", "first", ft, cands, defs, "Var", "Okq", 2, ["", "\n", " ", " \n", ";", "\r\n", " \r\n"], [-1])
    s2 = run_projection(chk, "C06", "middle", ft, cands, defs, "Okq", "VarSmall \\cup Okq", 3, [""], [-1])
    chk.cov["exhaustive"] = True
    chk.cov["rule"] = (f"units carrying {len(dl)} data lists (0..3 elements over all seven data types incl. separators inside strings/blocks) x {len(pulls)} pull sequences over required/optional, "
                       "in first, middle and last position and before every kind of message ending; handlers log the exact tokens they receive; non-trivial = failing or multi-unit")


def c10_units(th):
    q = [U(["Bq"], query=True, h=H(items=("7",))),
         U(["Bq"], query=True, h=H(items=("1", "'a;b'", "#13x,y"))),
         U(["GRP"], query=True, h=H(hdr="GRP:Y", items=("42",))),
         U(["*OPC"], query=True, h=H(items=("-2.5", '"Unexpected ""x"""'))),   # a long segment before an embedded quote, short ones after it
         U(["GRP", "X"], query=True, h=H(hdr="LONGHEADERXX:X", items=("ON", "OFF"))),   # two header() calls: a long first level, a short rest (fits where the first does not)
         U(["Bq"], query=True, h=H(items=("", "#12x;"))),       # an empty first datum (still separated by ','); payload ending in the unit separator byte
         U(["GRP"], query=True, h=H(items=("#11,", "#11\n"))),   # ... in the data separator / terminator byte
         U(["SENS"], query=True, h=H(items=('-171,"Invalid expression;ext ""one"""', '0,"No error"'))),   # error/event queue items
         U(["SENS", "AC"], query=True, h=H(items=("\x80", "5"))),   # an unformattable datum: the message must fail, not emit ',5'
         U(["Bq"], query=True, h=H(items=("2,100000,6", "ASC2"))),      # a list with a long middle element (growable list type: first element even), then a derived enum with a numeric suffix as the last datum
         U(["GRP"], query=True, h=H(items=("CHAN12345", "3,100000,4")))]  # ... and a list of the fixed-capacity list type (first element odd) as the last datum
    e = [U(["A"]), U(["GRP", "X"], data=[DATA["str"]], h=H(pulls=["req"])), U(["*OPC"])]
    return q, e


def run_c10(chk, tier, seed):
    th = tier == "thorough"
    ft = flatten(SMALL)
    cands = cands_for(SMALL, rich=False)
    q, e = c10_units(th)
    defs = [f"Q == {set_of(q)}", f"E == {set_of(e)}"]
    k = 4 if th else 3
    run_projection(chk, "C10", "framing", ft, cands, defs, "Q \\cup E", "Q \\cup E", k, ENDINGS, [-1])
    # more than 256 data elements in one unit (own small projection: the texts are long)
    big = U(["SENS"], query=True, h=H(items=tuple(str(1000 + i) for i in range(260))))
    defs2 = [f"Q == {set_of([big] + q[:3])}", f"E == {set_of(e[:1])}"]
    run_projection(chk, "C10", "framing-many", ft, cands, defs2, "Q \\cup E", "Q \\cup E", 3 if th else 2, ENDINGS, [-1])
    chk.cov["exhaustive"] = True
    chk.cov["rule"] = (f"every message of <= {k} units over {len(q)} query units (1-3 data of several types incl. ';' and ',' inside strings/blocks, with/without response header) and {len(e)} non-query units "
                       f"x 7 message endings (end, NL, ws, ws NL, ';', ';NL', '; '); byte-exact comparison of the response buffer; non-trivial = multi-unit")


def run_c11(chk, tier, seed):
    th = tier == "thorough"
    ft = flatten(SMALL)
    cands = cands_for(SMALL, rich=False)
    q, e = c10_units(th)
    conv = U(["A"], data=[DATA[x] for x in ("num2", "numsuf", "expr", "hex", "str", "blk", "chr", "numsuf2")], h=H(pulls=["req"] * 8))
    # error/event queue items (with and without extended text) formatted by the library's own Error formatter
    q = q + [U(["SENS"], query=True, h=H(items=('-171,"Invalid expression;ext ""one"""',))),
             U(["SENS", "AC"], query=True, h=H(items=('-113,"Undefined header"', '7,"Custom ""dev"" error;x;y"')))]
    defs = [f"Q == {set_of(q)}", f"E == {set_of(e[:1] + [conv])}"]
    k = 3
    maxlen = 3 * 19 + 4
    run_projection(chk, "C11", "capacity", ft, cands, defs, "Q \\cup E", "Q \\cup E", k, ["", ";"] if not th else ["", "\n", ";"],
                   list(range(0, maxlen + 1)) + [-1], ["--alloc"])
    chk.cov["exhaustive"] = True
    chk.cov["rule"] = (f"every message of <= {k} units over the C10 query units x every capacity 0..{maxlen} (beyond the longest response) on ArrayVec<u8,CAP>: Ok => bytes equal the growable-buffer run "
                       "(both equal the specification's), otherwise exactly -225 and len <= CAP; heap allocations inside Node::run counted by a counting global allocator (handler bookkeeping excluded) must be 0")
    from . import eng_status
    eng_status.cap_trace(chk, tier, seed)
    chk.assumptions += ["the mandated commands (SYST:ERR?, :ALL?, *STB? ...) are covered by recorded status histories re-run on fixed-capacity buffers (TraceStatus capacity rows)",
                        "allocation-freedom is monitored on every replayed message (the specification has no allocating action; the monitor checks the code has none)"]


def run(chk, tier, seed):
    {"C02": run_c02, "C05": run_c05, "C06": run_c06, "C10": run_c10, "C11": run_c11}[chk.prop](chk, tier, seed)
