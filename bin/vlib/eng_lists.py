"""C19 — channel lists and numeric lists (spec: Lists / MCLists)."""
import json, os
from .common import *
from .eng_exec import tla_bytes


def dim(text):
    return "[t |-> %s, v |-> \"%d\"]" % (tla_bytes(text), int(text))     # value as decimal text (TLC integers are 32-bit)


def spec(*ds):
    return "[k |-> \"spec\", a |-> <<%s>>]" % ", ".join(dim(d) for d in ds)


def rng(a, b):
    return "[k |-> \"range\", a |-> <<%s>>, b |-> <<%s>>]" % (", ".join(dim(d) for d in a), ", ".join(dim(d) for d in b))


def path(q, p):
    return "[k |-> \"path\", q |-> %d, p |-> %s]" % (ord(q), tla_bytes(p))


def num(a):
    return "[k |-> \"num\", a |-> %s]" % tla_bytes(a)


def nrange(a, b):
    return "[k |-> \"nrange\", a |-> %s, b |-> %s]" % (tla_bytes(a), tla_bytes(b))


def run_one(chk, name, channel, entries, mixed, maxlen):
    wd = os.path.join(WORK, "C19-lists")
    os.makedirs(wd, exist_ok=True)
    mod = f"MCLists_{name}"
    text = (f"---- MODULE {mod} ----\nEXTENDS MCLists\nC_Entries == {{{', '.join(entries)}}}\n"
            f"C_Mixed == {{{', '.join(mixed)}}}\n====\n")
    cfg = (f"SPECIFICATION Spec\nCONSTANTS\n  Channel = {'TRUE' if channel else 'FALSE'}\n  Entries <- C_Entries\n  MixedRanges <- C_Mixed\n  MaxLen = {maxlen}\n"
           "INVARIANTS Emit Sane\n")
    raw = os.path.join(wd, f"{name}.raw")
    res = tlc(mod, cfg, f"C19-mc-{name}", workers=8, gen_text=text, raw_out=raw, timeout=3000)
    require_clean(res, f"MCLists[{name}]")
    chk.add_tlc(f"MCLists[{name}]", res, "lists and single corruptions enumerated with expected entries / error window")
    out, _, _ = harness(["lists-replay", "--cases", raw])
    os.remove(raw)
    summary = None
    for line in out.splitlines():
        v = json.loads(line)
        if v.get("summary"):
            summary = v
            continue
        probs = v["bad"]
        first = probs[0]
        kind = ("conversion" if "conversion" in first else "count" if "entries yielded" in first else "entries" if "differ" in first
                else "unreported" if "not reported" in first else "spurious-error" if "well-formed" in first else "panic" if "panic" in first else "other")
        chk.violation({"engine": "lists", "channel": v["channel"], "corr": v["corr"], "kind": kind},
                      f"{'channel' if v['channel'] else 'numeric'} list {v['text']!r} (corruption {v['corr']}): {'; '.join(probs)}; expected {json.dumps(v['expected'])[:300]} window {v['win']}, got {json.dumps(v['got'])[:300]}", v)
    if not summary or summary["cases"] == 0 or summary["cases"] != res.distinct - 1:
        raise ToolError(f"lists-replay incomplete: {summary} vs {res.distinct}")
    chk.count(evaluations=summary["cases"], traces=summary["cases"])
    chk.cov["distinct_nontrivial"] += summary["corrupted"] + summary["with_spec"]
    for s in summary["samples"][:2]:
        chk.sample(s)
    return summary


def run(chk, tier, seed):
    th = tier == "thorough"
    nums = [num("1"), num("-2"), num("+3"), num("1.5"), num(".5"), num("2e1"), num("-4.5E-1"), nrange("1", "5"), nrange("-2", "+3"), nrange(".5", "1.5e1"),
            num("-.5"), num("7."), nrange("+.25e1", "-.75"), num("2.E1"), nrange("-1.e-1", "+3.E+2")]      # sign directly before the point; a bare trailing point; a bare point before the exponent
    chans = [spec("1"), spec("-2"), spec("+3"), spec("12"), spec("1", "2"), spec("3", "-4"), spec("1", "2", "3"),
             rng(["1"], ["3"]), rng(["1", "1"], ["2", "3"]), rng(["1", "2", "3"], ["4", "5", "6"]),
             path("'", "p"), path('"', "a,b"), path("'", "x:y!1"), path("'", "d\x7fA"), path('"', "\x01~ "),
             spec("-9223372036854775808", "9223372036854775807"), rng(["-9223372036854775808"], ["-9223372036854775807"]),
             spec("000000000000000000000012"), spec("4", "-00000000000000000005", "6"), rng(["1"], ["+3"]), rng(["-1", "2", "3"], ["+4", "5", "6"])]
    mixed = [rng(["1"], ["2", "3"]), rng(["1", "2"], ["3"]), rng(["1", "2", "3"], ["4", "5"])]
    run_one(chk, "numeric", False, nums, [], 4 if th else 3)
    run_one(chk, "channel", True, chans, mixed, 3)
    chk.cov["exhaustive"] = True
    chk.cov["rule"] = (f"every numeric list of <= {4 if th else 3} entries over {len(nums)} entry templates (signs, decimals, bare '.', exponents, ranges) and every channel list of <= 3 entries over {len(chans)} templates "
                       "(1-3 dimensions, signed dimensions, ranges of each dimension, quoted path names containing ',' ':' '!') plus ranges with ends of different dimension; each also with every applicable single corruption "
                       "(leading comma, doubled comma, missing separator, third range end, foreign character); every yielded spec is viewed through the dimension iterator, dimension()/len() and all tuple conversions; "
                       "non-trivial = corrupted lists and lists containing specs")
    chk.assumptions += ["iterators are driven directly (ChannelList::new / NumericList::new): the message lexer never lets a quoted path name inside an expression through",
                        "for a third range end the a:b part may or may not be yielded before the error"]
