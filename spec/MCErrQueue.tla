--------------------------- MODULE MCErrQueue ---------------------------
(* Model-checking instance of ErrQueue for property C12.                   *)
(*  - checks the declarative FIFO / bound / overflow-marker statements as  *)
(*    invariants and action properties over a ghost history;               *)
(*  - with Emit = TRUE prints one JSON record per (state, operation) edge  *)
(*    which the Rust harness replays against the real queues (binding A2). *)
EXTENDS ErrQueue, TLC, Json, FiniteSets

CONSTANTS Cap,      \* capacity, 0 = unbounded
          Errs,     \* set of error records that may be pushed
          MaxHist,  \* bound on accepted pushes (state constraint)
          Emit      \* TRUE: print edges for replay

VARIABLES queue,    \* the queue
          hist,     \* ghost: every slot ever created, with overflow overwrites applied in place
          np        \* ghost: number of pops that removed an element

vars == <<queue, hist, np>>

DefaultErrs == {[code |-> -113, ext |-> 0], [code |-> 7, ext |-> 0], [code |-> -200, ext |-> 1], [code |-> 0, ext |-> 0]}    \* incl. 0 "No error" pushed like any other

Init == queue = <<>> /\ hist = <<>> /\ np = 0

EmitEdge(op, arg, o) ==
    IF Emit THEN PrintT(ToJson([cap |-> Cap, pre |-> queue, op |-> op,
                                arg |-> arg, resp |-> o.resp, post |-> o.post]))
    ELSE TRUE

Push(e) ==
    LET o == Outcome(queue, Cap, "push", e) IN
    /\ queue' = o.post
    /\ hist' = IF Bounded(Cap) /\ Len(queue) >= Cap
               THEN [hist EXCEPT ![Len(hist)] = Overflow]
               ELSE Append(hist, e)
    /\ np' = np
    /\ EmitEdge("push", <<e>>, o)

Pop ==
    LET o == Outcome(queue, Cap, "pop", <<>>) IN
    /\ queue' = o.post
    /\ np' = IF queue = <<>> THEN np ELSE np + 1
    /\ hist' = hist
    /\ EmitEdge("pop", <<>>, o)

Clear ==
    LET o == Outcome(queue, Cap, "clear", <<>>) IN
    /\ queue' = o.post
    /\ hist' = <<>> /\ np' = 0
    /\ EmitEdge("clear", <<>>, o)

Query(op) ==
    LET o == Outcome(queue, Cap, op, <<>>) IN
    /\ UNCHANGED vars
    /\ EmitEdge(op, <<>>, o)

Next == (\E e \in Errs : Push(e)) \/ Pop \/ Clear \/ Query("len") \/ Query("empty")

Spec == Init /\ [][Next]_vars

Bound == Len(hist) <= MaxHist

(* ---- the property, declaratively ---- *)
TypeOK == queue \in Seq(Errs \cup {Overflow})

NeverOverCap == Bounded(Cap) => Len(queue) <= Cap

(* FIFO: the queue is exactly the not-yet-popped suffix of the accepted pushes *)
Fifo == queue = SubSeq(hist, np + 1, Len(hist))

(* a push into a full queue keeps the Cap-1 older entries, marks the newest *)
OverflowStep ==
    [][(Bounded(Cap) /\ Len(queue) = Cap /\ queue' # queue /\ Len(queue') = Cap)
         => (/\ SubSeq(queue', 1, Cap - 1) = SubSeq(queue, 1, Cap - 1)
             /\ queue'[Cap] = Overflow)]_vars

(* removing entries makes room again: after a pop a push is accepted verbatim *)
RoomAgain ==
    [][(Bounded(Cap) /\ Len(queue) < Cap /\ Len(queue') = Len(queue) + 1)
         => (queue'[Len(queue')] \in Errs /\ SubSeq(queue', 1, Len(queue)) = queue)]_vars
=========================================================================
