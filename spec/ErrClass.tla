---------------------------- MODULE ErrClass ----------------------------
(* IEEE 488.2 / SCPI-99 classification of error/event numbers (C14).      *)
(* Written from the standard's century rule, not from the code's table.    *)
EXTENDS Integers

Codes16 == -32768..32767

(* Standard Event Status Register bit(s) set by an error/event number *)
EsrBit(code) ==
    IF      code \in -99..0      THEN {}
    ELSE IF code \in -199..-100  THEN {5}      \* command error
    ELSE IF code \in -299..-200  THEN {4}      \* execution error
    ELSE IF code \in -399..-300  THEN {3}      \* device-specific error
    ELSE IF code \in -499..-400  THEN {2}      \* query error
    ELSE IF code \in -599..-500  THEN {7}      \* power on
    ELSE IF code \in -699..-600  THEN {6}      \* user request
    ELSE IF code \in -799..-700  THEN {1}      \* request control
    ELSE IF code \in -899..-800  THEN {0}      \* operation complete
    ELSE {3}                                   \* positive / unclassified: device-specific

EsrMask(code) ==
    LET b == EsrBit(code) IN IF b = {} THEN 0 ELSE 2 ^ (CHOOSE x \in b : TRUE)

IsCommandErr(code)   == code \in -199..-100
IsExecutionErr(code) == code \in -299..-200
IsErrorCode(code)    == code # 0
=========================================================================
