----------------------------- MODULE Suffix -----------------------------
(* SCPI-99 vol. 1 7.1.4 / 7.2: unit suffixes (property C18).               *)
(* A suffix is [multiplier] unit, matched without regard to letter case.    *)
(* The judgement is made against this general rule, not against the         *)
(* library's table: a suffix the rule allows MAY be rejected by the library *)
(* (it defines a subset) but if accepted it must denote the right value; a  *)
(* suffix the rule does not allow for the quantity MUST be rejected.  The   *)
(* suffixes the library itself defines (snapshot: SuffixCore.tla) must     *)
(* keep converting -- RowsSuffix requires that on top of this module.       *)
EXTENDS Numeric

B(str) == str     \* byte sequences are written as tuples below

(* multiplier mnemonic -> power of ten *)
Multipliers == { [n |-> <<69, 88>>, e |-> 18],  (* EX *)  [n |-> <<80, 69>>, e |-> 15],  (* PE *)
                 [n |-> <<84>>, e |-> 12],       (* T  *)  [n |-> <<71>>, e |-> 9],        (* G  *)
                 [n |-> <<77, 65>>, e |-> 6],    (* MA *)  [n |-> <<75>>, e |-> 3],        (* K  *)
                 [n |-> <<77>>, e |-> -3],       (* M  *)  [n |-> <<85>>, e |-> -6],       (* U  *)
                 [n |-> <<78>>, e |-> -9],       (* N  *)  [n |-> <<80>>, e |-> -12],      (* P  *)
                 [n |-> <<70>>, e |-> -15],      (* F  *)  [n |-> <<65>>, e |-> -18],      (* A  *)
                 [n |-> <<>>, e |-> 0] }

(* unit records: name, factor to the SI base unit as decimal d*10^e, additive offset (decimal),
   pre: whether SCPI multipliers combine with it *)
U(n, d, e, pre) == [n |-> n, m |-> [neg |-> FALSE, d |-> d, e |-> e], off |-> [neg |-> FALSE, d |-> <<>>, e |-> 0], pre |-> pre]
UO(n, d, e, od, oe) == [n |-> n, m |-> [neg |-> FALSE, d |-> d, e |-> e], off |-> [neg |-> FALSE, d |-> od, e |-> oe], pre |-> FALSE]

Units(q) ==
    CASE q = "angle" -> { U(<<82,65,68>>, <<1>>, 0, TRUE),                                   \* RAD
                          U(<<68,69,71>>, <<1,7,4,5,3,2,9,2,5,2>>, -11, FALSE),              \* DEG = pi/180
                          U(<<77,78,84>>, <<2,9,0,8,8,8,2,0,8,7>>, -13, FALSE),              \* MNT = pi/10800
                          U(<<83,69,67>>, <<4,8,4,8,1,3,6,8,1,1>>, -15, FALSE),              \* SEC = pi/648000
                          U(<<82,69,86>>, <<6,2,8,3,1,8,5,3,0,7>>, -9, FALSE),               \* REV = 2 pi
                          U(<<71,79,78>>, <<1,5,7,0,7,9,6,3,2,7>>, -11, FALSE) }             \* GON = pi/200
      [] q = "capacitance" -> { U(<<70>>, <<1>>, 0, TRUE) }                                   \* F
      [] q = "charge" -> { U(<<67>>, <<1>>, 0, TRUE),                                         \* C
                           U(<<65,72>>, <<3,6>>, 2, TRUE), U(<<65,46,72,82>>, <<3,6>>, 2, TRUE) }   \* AH, A.HR
      [] q = "current" -> { U(<<65>>, <<1>>, 0, TRUE) }                                       \* A
      [] q = "potential" -> { U(<<86>>, <<1>>, 0, TRUE) }                                     \* V
      [] q = "conductance" -> { U(<<83,73,69>>, <<1>>, 0, TRUE) }                             \* SIE
      [] q = "resistance" -> { U(<<79,72,77>>, <<1>>, 0, TRUE) }                              \* OHM
      [] q = "energy" -> { U(<<74>>, <<1>>, 0, TRUE),                                         \* J
                           U(<<87,72>>, <<3,6>>, 2, TRUE), U(<<87,46,72,82>>, <<3,6>>, 2, TRUE),    \* WH, W.HR
                           U(<<69,86>>, <<1,6,0,2,1,7,6,6,3,4>>, -28, TRUE) }                 \* EV
      [] q = "inductance" -> { U(<<72>>, <<1>>, 0, TRUE) }                                    \* H
      [] q = "power" -> { U(<<87>>, <<1>>, 0, TRUE) }                                         \* W
      [] q = "ratio" -> { U(<<80,67,84>>, <<1>>, -2, FALSE), U(<<80,80,77>>, <<1>>, -6, FALSE) }   \* PCT, PPM
      [] q = "temperature" -> { U(<<75>>, <<1>>, 0, TRUE),                                    \* K
                                UO(<<67,69,76>>, <<1>>, 0, <<2,7,3,1,5>>, -2),                \* CEL: + 273.15
                                UO(<<70,65,82>>, <<5,5,5,5,5,5,5,5,5,6>>, -10, <<2,5,5,3,7,2,2,2,2,2>>, -7) }  \* FAR: (x + 459.67) * 5/9
      [] q = "time" -> { U(<<83>>, <<1>>, 0, TRUE),                                           \* S
                         U(<<77,73,78>>, <<6>>, 1, FALSE), U(<<72,82>>, <<3,6>>, 2, FALSE),   \* MIN, HR
                         U(<<68>>, <<8,6,4>>, 2, FALSE),                                      \* D
                         U(<<65,78,78>>, <<3,1,5,5,7,6>>, 2, FALSE), U(<<65,78,78>>, <<3,1,5,3,6>>, 3, FALSE) }   \* ANN: 365.25 d or 365 d (either reading accepted)
      [] q = "frequency" -> { U(<<72,90>>, <<1>>, 0, TRUE) }                                  \* HZ

(* the two SCPI exceptions: M means mega in MHZ and MOHM *)
MegaException(q, unitName) == (q = "frequency" /\ unitName = <<72, 90>>) \/ (q = "resistance" /\ unitName = <<79, 72, 77>>)

UpperSeq(s) == [k \in 1..Len(s) |-> Upper(s[k])]

(* exact readings: pairs (multiplier, unit) whose concatenation is the suffix *)
Readings(q, suf) ==
    LET s == UpperSeq(suf) IN
    { [m |-> [neg |-> FALSE, d |-> u.m.d, e |-> u.m.e + (IF mp.n = <<77>> /\ MegaException(q, u.n) THEN 6 ELSE mp.e)], off |-> u.off]
        : <<mp, u>> \in {p \in Multipliers \X Units(q) : (p[1].n = <<>> \/ p[2].pre) /\ s = p[1].n \o p[2].n} }

(* ---------------- decimal arithmetic on [neg, d, e] ---------------- *)
RECURSIVE MulNat(_, _, _)
MulNat(a, b, k) == IF k > Len(b) THEN <<>> ELSE Add(Shl(MulSmall(a, b[k]), Len(b) - k), MulNat(a, b, k + 1))
DMul(x, y) == [neg |-> (x.neg # y.neg) /\ x.d # <<>> /\ y.d # <<>>, d |-> MulNat(x.d, y.d, 1), e |-> x.e + y.e]
MinI(a, b) == IF a <= b THEN a ELSE b
DAlign(x, e) == S(x.neg, Shl(x.d, x.e - e))
DAdd(x, y) == LET e == MinI(x.e, y.e)  r == SAdd(DAlign(x, e), DAlign(y, e)) IN [neg |-> r.neg, d |-> r.d, e |-> e]
DSub(x, y) == DAdd(x, [neg |-> ~y.neg /\ y.d # <<>>, d |-> y.d, e |-> y.e])
DAbs(x) == [neg |-> FALSE, d |-> x.d, e |-> x.e]
(* |a - b| <= |b| * 10^-5 + 10^-3 * [offset present] : float conversion arithmetic, not exact *)
Close(a, b, absTol) ==
    LET diff == DAbs(DSub(a, b))
        tol  == DAdd([neg |-> FALSE, d |-> b.d, e |-> b.e - 5], absTol)
    IN DCmp([nan |-> FALSE, neg |-> FALSE, d |-> diff.d, e |-> diff.e], [nan |-> FALSE, neg |-> FALSE, d |-> tol.d, e |-> tol.e]) <= 0

AbsTol(off) == IF off.d = <<>> THEN [neg |-> FALSE, d |-> <<>>, e |-> 0] ELSE [neg |-> FALSE, d |-> <<1>>, e |-> -3]
Expected(v, x) == DAdd(DMul(v, x.m), x.off)

(* a decimal value with suffix `suf' converted to quantity q; obs = [k, code, v] with v the stored base value *)
UnitOk(q, lit, suf, obs) ==
    LET v == ParseNRf(lit)  R == Readings(q, suf) IN
    IF suf = <<>> THEN
        /\ obs.k = "ok"
        /\ \/ Close(obs.v, v, AbsTol([d |-> <<>>]))                                            \* base unit
           \/ q = "temperature" /\ Close(obs.v, DAdd(v, [neg |-> FALSE, d |-> <<2,7,3,1,5>>, e |-> -2]), AbsTol([d |-> <<1>>]))
    ELSE IF R = {} THEN Rejected(obs)                                                        \* not defined for the quantity
    ELSE Rejected(obs) \/ \E x \in R : Close(obs.v, Expected(v, x), AbsTol(x.off))

(* ---------------- amplitude (PK / PP / RMS) and decibel suffixes ---------------- *)
EndsIC(s, tail) == Len(s) >= Len(tail) /\ UpperSeq(SubSeq(s, Len(s) - Len(tail) + 1, Len(s))) = tail
AmpClass(suf) ==
    IF EndsIC(suf, <<80, 75>>) THEN [cls |-> "pk", rest |-> SubSeq(suf, 1, Len(suf) - 2)]
    ELSE IF EndsIC(suf, <<80, 80>>) THEN [cls |-> "pp", rest |-> SubSeq(suf, 1, Len(suf) - 2)]
    ELSE IF EndsIC(suf, <<82, 77, 83>>) THEN [cls |-> "rms", rest |-> SubSeq(suf, 1, Len(suf) - 3)]
    ELSE [cls |-> "none", rest |-> suf]
(* obs = [k, code, cls, v]: classified without altering the number *)
AmpOk(q, lit, suf, obs) ==
    LET c == AmpClass(suf) IN
    /\ (obs.k = "ok" => obs.cls = c.cls)
    /\ (IF c.rest = <<>> /\ suf # <<>> THEN Rejected(obs)        \* a bare PK / PP / RMS names no unit of the quantity
        ELSE UnitOk(q, lit, c.rest, obs))

(* decibel suffixes: DB[multiplier]unit for voltage / power / current (DBM = DBMW), DB for a ratio;
   the reference is one (multiplied) unit; obs = [k, code, cls, num, v] *)
DbRefs(q) ==
    LET base == CASE q = "potential" -> <<86>> [] q = "power" -> <<87>> [] q = "current" -> <<65>> [] OTHER -> <<>> IN
    IF q = "ratio" THEN { [n |-> <<68, 66>>, ref |-> [neg |-> FALSE, d |-> <<1>>, e |-> 0]] }
    ELSE IF base = <<>> THEN {}
    ELSE { [n |-> <<68, 66>> \o mp.n \o base, ref |-> [neg |-> FALSE, d |-> <<1>>, e |-> mp.e]] : mp \in Multipliers }
         \cup (IF q = "power" THEN { [n |-> <<68, 66, 77>>, ref |-> [neg |-> FALSE, d |-> <<1>>, e |-> -3]] } ELSE {})
DbOk(q, lit, suf, obs) ==
    LET v == ParseNRf(lit)  hits == {x \in DbRefs(q) : x.n = UpperSeq(suf)} IN
    IF suf = <<>> THEN obs.k = "ok" /\ obs.cls = "none" /\ Close(obs.num, v, AbsTol([d |-> <<>>]))
    ELSE IF hits # {} THEN
        Rejected(obs) \/ (obs.cls = "log" /\ Close(obs.num, v, AbsTol([d |-> <<>>]))
                             /\ \E x \in hits : Close(obs.v, x.ref, AbsTol([d |-> <<>>])))
    ELSE (obs.k = "ok" => obs.cls = "lin") /\ UnitOk(q, lit, suf, obs)
=========================================================================
