--------------------------- MODULE TraceStatus ---------------------------
(* Trace validation (binding B1) for C13 / C15 / C16: a history of program  *)
(* messages and device-side condition changes recorded from a real device   *)
(* (wired as in examples/minimal_scpi.rs) is a behaviour of ScpiStatus.     *)
(* ndjson lines, each logged after the call returned:                       *)
(*  {"ev":"reset","cap":N,"tst":T}                                          *)
(*  {"ev":"msg","units":[u..],"mav":b,"ret":{code,ext},"resps":[[..]..],"post":{..}} *)
(*  {"ev":"dev","u":u,"post":{..}}                                          *)
(* A line the specification does not allow is printed as <<"BAD", line, ..>> *)
(* and the model re-synchronises to the logged post-state.                   *)
EXTENDS ScpiStatus, TLC, Json, IOUtils

Rec == ndJsonDeserialize(IOEnv.TRACE)

VARIABLES l, env, st
tvars == <<l, env, st>>

RegOfJson(j) == [cond |-> ToBits(j.cond, 16), event |-> ToBits(j.event, 16), enable |-> ToBits(j.enable, 16),
                 ptr |-> ToBits(j.ptr, 16), ntr |-> ToBits(j.ntr, 16)]
StOfJson(j) == [esr |-> ToBits(j.esr, 8), ese |-> ToBits(j.ese, 8), sre |-> ToBits(j.sre, 8),
                oper |-> RegOfJson(j.oper), ques |-> RegOfJson(j.ques), queue |-> j.queue]

TraceInit == l = 1 /\ env = [cap |-> 0, tst |-> 0] /\ st = InitState

Reset == /\ l <= Len(Rec) /\ Rec[l].ev = "reset"
         /\ env' = [cap |-> Rec[l].cap, tst |-> Rec[l].tst] /\ st' = InitState /\ l' = l + 1

Msg == /\ l <= Len(Rec) /\ Rec[l].ev = "msg"
       /\ LET ev   == Rec[l]
              post == StOfJson(ev.post)
              outs == MsgOutcomes(st, env, ev.units, ev.mav)
              ok   == /\ \E o \in outs : /\ o.ret = ev.ret /\ o.st = post
                                         /\ (o.ret = NoErr => o.resps = ev.resps)
                      /\ ev.hook = (IF ev.ret = NoErr THEN 0 ELSE 1)      \* the error hook ran exactly once iff the message failed
                      /\ LET ntrg == Cardinality({k \in 1..Len(ev.units) : ev.units[k].op = "trg"}) IN   \* the trigger hook: once per executed *TRG
                         IF ev.ret = NoErr THEN ev.trigs = ntrg ELSE ev.trigs <= ntrg
          IN /\ (IF ok THEN TRUE ELSE PrintT(<<"BAD", l, ToJson([allowed |-> {[ret |-> o.ret, resps |-> o.resps, post |-> StJson(o.st)] : o \in outs}])>>))
             /\ st' = post
       /\ env' = env /\ l' = l + 1

Dev == /\ l <= Len(Rec) /\ Rec[l].ev = "dev"
       /\ LET ev == Rec[l]
              post == StOfJson(ev.post)
              exp  == DevOutcome(st, ev.u)
          IN /\ (IF exp = post THEN TRUE ELSE PrintT(<<"BAD", l, ToJson([allowed |-> {[ret |-> NoErr, resps |-> <<>>, post |-> StJson(exp)]}])>>))
             /\ st' = post
       /\ env' = env /\ l' = l + 1

(* C11 for the mandated commands: the same message from the same state on a response buffer of capacity `cap';
   `len' is the length of the response on a growable buffer (that run is the next line and is judged by Msg) *)
(* whatever was cut short, the error/event queue keeps its order: what is left of the old queue (some oldest
   items read or everything cleared), then at most the operation-complete events of the units that ran, then
   the -225 of this failure -- an item that could not be sent is never put back behind younger ones *)
Suffixes(q) == {SubSeq(q, k + 1, Len(q)) : k \in 0..Len(q)}                 \* some oldest items read (or all cleared)
RECURSIVE ReachQ(_, _, _)
ReachQ(Q, cap, j) ==                                                          \* ... interleaved with at most j -800 events
    LET S == UNION {Suffixes(q) : q \in Q} IN
    IF j = 0 THEN S ELSE S \cup ReachQ({PushPost(q, cap, Err(-800, 0)) : q \in S}, cap, j - 1)
CapQueueOk(pre, post, cap) == \E q \in ReachQ({pre}, cap, 3) : post = PushPost(q, cap, Err(-225, 0))

Cap == /\ l <= Len(Rec) /\ Rec[l].ev = "cap"
       /\ LET ev == Rec[l]
              ok == /\ ev.within                                                    \* never writes beyond the capacity
                    /\ IF ev.cap >= ev.len THEN ev.code = 0 /\ ev.same               \* fits: identical bytes and effects
                       ELSE ev.code = -225 /\ CapQueueOk(st.queue, ev.qpost, env.cap)  \* does not fit: -225 Out of memory
          IN IF ok THEN TRUE ELSE PrintT(<<"BAD", l, ToJson([allowed |-> {}])>>)
       /\ UNCHANGED <<env, st>> /\ l' = l + 1

(* a plain IEEE 488.2 device that keeps the PROVIDED IEEE4882::stb(): `*STB?' for given ESR / ESE / SRE and MAV.
   The same formula with no queue and no OPERation / QUEStionable registers; reading changes nothing. *)
PlainStb == /\ l <= Len(Rec) /\ Rec[l].ev = "plainstb"
            /\ LET ev == Rec[l]
                   s  == [InitState EXCEPT !.esr = ToBits(ev.esr, 8), !.ese = ToBits(ev.ese, 8), !.sre = ToBits(ev.sre, 8)]
                   ok == ev.same /\ ev.stb \in StbAllowed(s, ev.mav)
               IN IF ok THEN TRUE ELSE PrintT(<<"BAD", l, ToJson([allowed |-> StbAllowed(s, ev.mav)])>>)
            /\ UNCHANGED <<env, st>> /\ l' = l + 1

TraceNext == Reset \/ Msg \/ Dev \/ Cap \/ PlainStb
TraceSpec == TraceInit /\ [][TraceNext]_tvars

Complete == IF TLCGet("stats").diameter - 1 = Len(Rec) THEN TRUE
            ELSE PrintT(<<"INCOMPLETE", TLCGet("stats").diameter - 1, Len(Rec)>>)
=========================================================================
