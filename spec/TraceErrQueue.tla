-------------------------- MODULE TraceErrQueue --------------------------
(* Trace validation (binding B1) for property C12: a history recorded from  *)
(* the real queues is a behaviour of ErrQueue.  One ndjson line per call,   *)
(* logged after the call returned:                                          *)
(*   {"ev":"reset","cap":N}                  start of a new history          *)
(*   {"ev":"op","op":..,"arg":[..],"resp":[..],"post":[..]}                  *)
(* Every line is judged; a line the specification does not allow is printed *)
(* as <<"BAD", line, expected>> and the model is re-synchronised to the     *)
(* logged post-state so that the rest of the trace is still checked.        *)
EXTENDS ErrQueue, TLC, Json, IOUtils

Rec == ndJsonDeserialize(IOEnv.TRACE)

VARIABLES l, cap, queue
tvars == <<l, cap, queue>>

TraceInit == l = 1 /\ cap = 0 /\ queue = <<>>

Reset == /\ l <= Len(Rec) /\ Rec[l].ev = "reset"
         /\ cap' = Rec[l].cap /\ queue' = <<>> /\ l' = l + 1

Arg(ev) == IF ev.op = "push" THEN ev.arg[1] ELSE <<>>

Step == /\ l <= Len(Rec) /\ Rec[l].ev = "op"
        /\ LET ev == Rec[l]
               o  == Outcome(queue, cap, ev.op, Arg(ev))
               ok == ev.resp = o.resp /\ ev.post = o.post
           IN /\ (IF ok THEN TRUE ELSE PrintT(<<"BAD", l, ToJson([expected |-> o, got |-> ev])>>))
              /\ queue' = ev.post          \* = o.post when ok; re-sync otherwise
        /\ cap' = cap /\ l' = l + 1

TraceNext == Reset \/ Step
TraceSpec == TraceInit /\ [][TraceNext]_tvars

(* the design-level bound also holds on every observed state *)
ObservedBound == Bounded(cap) => Len(queue) <= cap

(* all lines consumed *)
Complete == IF TLCGet("stats").diameter - 1 = Len(Rec) THEN TRUE
            ELSE PrintT(<<"INCOMPLETE", TLCGet("stats").diameter - 1, Len(Rec)>>)
=========================================================================
