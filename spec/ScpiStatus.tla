--------------------------- MODULE ScpiStatus ---------------------------
(* The IEEE 488.2 / SCPI-99 status model of a device wired in the           *)
(* documented way (properties C13, C15, C16; uses C12's queue and C14's     *)
(* classification).  Registers are sets of bit indices.                     *)
(*                                                                          *)
(* State  s   = [esr, ese, sre \subseteq 0..7,                              *)
(*               oper, ques : [cond, event, enable, ptr, ntr \subseteq 0..15], *)
(*               queue : Seq(Err)]                                          *)
(* Config env = [cap : queue capacity (0 = unbounded),                      *)
(*               tst : self-test result (0 = pass, else an error number)]   *)
(*                                                                          *)
(* One message unit is one step; a program message is a sequence of units   *)
(* that stops at the first failing unit, whose error is then reported       *)
(* through the device's error hook (Fail).  Where the standards / property  *)
(* text leave a choice, the step relation returns a SET of outcomes.        *)
EXTENDS Naturals, Integers, Sequences, FiniteSets, FiniteSetsExt, ErrQueue, ErrClass

Bit8  == 0..7
Bit16 == 0..15
AllOnes16 == Bit16

ToBits(n, w)  == {b \in 0..(w - 1) : (n \div (2 ^ b)) % 2 = 1}
FromBits(S)   == FoldSet(LAMBDA b, acc : acc + 2 ^ b, 0, S)

NoErr == [code |-> 0, ext |-> 0]
Err(c, x) == [code |-> c, ext |-> x]

InitReg == [cond |-> {}, event |-> {}, enable |-> {}, ptr |-> AllOnes16, ntr |-> {}]
InitState == [esr |-> {}, ese |-> {}, sre |-> {}, oper |-> InitReg, ques |-> InitReg, queue |-> <<>>]

Reg(s, r)        == IF r = "OPER" THEN s.oper ELSE s.ques
WithReg(s, r, g) == IF r = "OPER" THEN [s EXCEPT !.oper = g] ELSE [s EXCEPT !.ques = g]

(* projection to plain integers (JSON shape shared with the harness) *)
RegJson(g) == [cond |-> FromBits(g.cond), event |-> FromBits(g.event), enable |-> FromBits(g.enable),
               ptr |-> FromBits(g.ptr), ntr |-> FromBits(g.ntr)]
StJson(s) == [esr |-> FromBits(s.esr), ese |-> FromBits(s.ese), sre |-> FromBits(s.sre),
              oper |-> RegJson(s.oper), ques |-> RegJson(s.ques), queue |-> s.queue]


(* ---------------- C15: transition filters and the latch ---------------- *)
(* device-side condition update to the new value v (a set of bits) *)
Latched(g, v) == {b \in Bit16 : (b \in v /\ b \notin g.cond /\ b \in g.ptr)
                                 \/ (b \notin v /\ b \in g.cond /\ b \in g.ntr)}
SetCond(g, v) == [g EXCEPT !.cond = v, !.event = g.event \cup Latched(g, v)]

Report(S) == FromBits(S \ {15})          \* every reported value has bit 15 clear

(* STATus:PRESet: enable 0, positive filter all ones, negative filter 0 -- and nothing else *)
PresetReg(g) == [g EXCEPT !.enable = {}, !.ptr = AllOnes16, !.ntr = {}]

(* ---------------- C16: status byte ---------------- *)
SumCond(g)  == (g.cond  \cap g.enable) \ {15} # {}
SumEvent(g) == (g.event \cap g.enable) \ {15} # {}
(* 488.2 derives a register set's summary from event/\enable, the library documents
   condition/\enable; the property does not choose.  Either value is accepted where
   the two readings differ. *)
SumOpts(g)  == IF SumCond(g) = SumEvent(g) THEN {SumCond(g)} ELSE BOOLEAN

StbOf(s, mav, q, o) ==
    LET b == (IF s.queue # <<>> THEN {2} ELSE {}) \cup (IF q THEN {3} ELSE {})
             \cup (IF mav THEN {4} ELSE {}) \cup (IF s.esr \cap s.ese # {} THEN {5} ELSE {})
             \cup (IF o THEN {7} ELSE {})
    IN IF (b \cap s.sre) # {} THEN b \cup {6} ELSE b

StbAllowed(s, mav) == {FromBits(StbOf(s, mav, q, o)) : q \in SumOpts(s.ques), o \in SumOpts(s.oper)}

(* ---------------- C13: the error hook ---------------- *)
FailPost(s, env, e) == [s EXCEPT !.esr = s.esr \cup EsrBit(e.code),
                                 !.queue = PushPost(s.queue, env.cap, e)]

(* expected class of the error raised by a genuinely invalid message *)
KindOk(k, code) ==
    CASE k = "syntax" -> IsCommandErr(code)
      [] k = "undef"  -> code = -113
      [] k = "p108"   -> code = -108
      [] k = "p109"   -> code = -109
      [] k = "type"   -> IsCommandErr(code)
      [] k = "range"  -> code = -222
      [] k = "form"   -> code = -113          \* query form of a command-only header or vice versa (SCPI-99 6.2.2)
      [] OTHER        -> FALSE

(* ---------------- one message unit ---------------- *)
(* u = [op, r, v, k, code, ext]; outcome = [err, resp, st] (st = state when the unit returned) *)
Ok(s, resp)  == {[err |-> NoErr, resp |-> resp, st |-> s]}
Bad(s, e)    == {[err |-> e, resp |-> <<>>, st |-> s]}

(* a register write of v: accepted iff v fits the register, otherwise some error, unchanged *)
Write(s, u, w, new) ==
    IF u.v \in 0..(2 ^ w - 1) THEN Ok(new, <<>>)
    ELSE IF IsErrorCode(u.code) THEN Bad(s, Err(u.code, u.ext)) ELSE {}

(* Response elements are records [code, ext]:
     a number n                         -> Num(n)  = [code |-> n, ext |-> -9]
     a queue item `code,"message[;x]"'  -> the error record [code, ext] itself
     a bare error number (SYST:ERR:ALL? in the form SCPI-99 21.8.5.1 describes) -> [code, ext |-> -2] *)
Num(n)  == [code |-> n, ext |-> -9]
Item(e) == e
BareItems(q) == [i \in 1..Len(q) |-> [code |-> q[i].code, ext |-> -2]]

UnitOutcomes(s, env, u, mav) ==
    LET g == Reg(s, u.r) IN
    CASE u.op = "cls"   -> Ok([s EXCEPT !.esr = {}, !.oper.event = {}, !.ques.event = {}, !.queue = <<>>], <<>>)
      [] u.op = "ese"   -> Write(s, u, 8, [s EXCEPT !.ese = ToBits(u.v, 8)])
      [] u.op = "eseq"  -> Ok(s, <<Num(FromBits(s.ese))>>)
      [] u.op = "esrq"  -> Ok([s EXCEPT !.esr = {}], <<Num(FromBits(s.esr))>>)
      [] u.op = "opc"   -> \* sets bit 0 and records the -800 operation-complete event in the error/event queue
                           Ok([s EXCEPT !.esr = s.esr \cup {0}, !.queue = PushPost(s.queue, env.cap, Err(-800, 0))], <<>>)
      [] u.op = "opcq"  -> Ok(s, <<Num(1)>>)
      [] u.op = "rst"   -> Ok(s, <<>>)
      [] u.op = "wai"   -> Ok(s, <<>>)
      [] u.op = "trg"   -> Ok(s, <<>>)                  \* *TRG: the device's trigger hook runs once (counted by the trace), no status change
      [] u.op = "sre"   -> Write(s, u, 8, [s EXCEPT !.sre = ToBits(u.v, 8)])
      [] u.op = "sreq"  -> Ok(s, <<Num(FromBits(s.sre))>>)
      [] u.op = "stbq"  -> UNION {Ok(s, <<Num(x)>>) : x \in StbAllowed(s, mav)}
      [] u.op = "tstq"  -> Ok(s, <<Num(env.tst)>>)
      [] u.op = "evq"   -> Ok(WithReg(s, u.r, [g EXCEPT !.event = {}]), <<Num(Report(g.event))>>)
      [] u.op = "condq" -> Ok(s, <<Num(Report(g.cond))>>)
      [] u.op = "enab"  -> Write(s, u, 16, WithReg(s, u.r, [g EXCEPT !.enable = ToBits(u.v, 16)]))
      [] u.op = "enabq" -> Ok(s, <<Num(Report(g.enable))>>)
      [] u.op = "ptr"   -> Write(s, u, 16, WithReg(s, u.r, [g EXCEPT !.ptr = ToBits(u.v, 16)]))
      [] u.op = "ptrq"  -> Ok(s, <<Num(Report(g.ptr))>>)
      [] u.op = "ntr"   -> Write(s, u, 16, WithReg(s, u.r, [g EXCEPT !.ntr = ToBits(u.v, 16)]))
      [] u.op = "ntrq"  -> Ok(s, <<Num(Report(g.ntr))>>)
      [] u.op = "pres"  -> Ok([s EXCEPT !.oper = PresetReg(s.oper), !.ques = PresetReg(s.ques)], <<>>)
      [] u.op = "errq"  -> IF s.queue = <<>> THEN Ok(s, <<Item(NoErr)>>)
                           ELSE Ok([s EXCEPT !.queue = Tail(s.queue)], <<Item(Head(s.queue))>>)
      [] u.op = "countq" -> Ok(s, <<Num(Len(s.queue))>>)
      [] u.op = "allq"  -> IF s.queue = <<>> THEN Ok(s, <<Item(NoErr)>>)
                           ELSE Ok([s EXCEPT !.queue = <<>>], s.queue) \cup Ok([s EXCEPT !.queue = <<>>], BareItems(s.queue))
      [] u.op = "idnq"  -> Ok(s, <<Num(4)>>)       \* *IDN?: four fields, exactly as configured (the projection counts the matching fields)
      [] u.op = "versq" -> Ok(s, <<Num(1999), Num(0)>>)   \* SYSTem:VERSion? answers 1999.0
      [] u.op = "nop"   -> Ok(s, <<>>)             \* a harmless device command
      [] u.op = "nopq"  -> Ok(s, <<Num(u.v)>>)         \* a harmless device query echoing v
      [] u.op = "fail"  -> Bad(s, Err(u.code, u.ext))            \* handler-raised error
      [] u.op = "bad"   -> IF KindOk(u.k, u.code) THEN Bad(s, Err(u.code, u.ext)) ELSE {}
      [] OTHER -> {}

(* device-side events (not messages): condition register changes *)
DevOutcome(s, u) ==
    LET g == Reg(s, u.r) IN
    CASE u.op = "setcond" -> WithReg(s, u.r, SetCond(g, ToBits(u.v, 16)))
      [] u.op = "setbits" -> WithReg(s, u.r, SetCond(g, g.cond \cup ToBits(u.v, 16)))
      [] u.op = "clrbits" -> WithReg(s, u.r, SetCond(g, g.cond \ ToBits(u.v, 16)))

IsDevOp(op) == op \in {"setcond", "setbits", "clrbits"}

(* ---------------- one program message ---------------- *)
(* outcome = [ret, resps, st]: returned error (NoErr on success), the responses of the
   executed query units in order, and the device state after the call returned (after the
   error hook ran, if the message failed) *)
RECURSIVE RunFrom(_, _, _, _, _)
RunFrom(s, env, units, mav, acc) ==
    IF units = <<>> THEN {[ret |-> NoErr, resps |-> acc, st |-> s]}
    ELSE UNION { IF o.err # NoErr
                 THEN {[ret |-> o.err, resps |-> acc, st |-> FailPost(o.st, env, o.err)]}
                 ELSE RunFrom(o.st, env, Tail(units), mav,
                              IF o.resp = <<>> THEN acc ELSE Append(acc, o.resp))
                 : o \in UnitOutcomes(s, env, Head(units), mav) }

MsgOutcomes(s, env, units, mav) == RunFrom(s, env, units, mav, <<>>)
=========================================================================
