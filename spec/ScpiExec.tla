---------------------------- MODULE ScpiExec ----------------------------
(* Execution of one program message against a command tree (properties     *)
(* C02, C05, C06, C10, C11).  One step per message unit -- the dispatcher   *)
(* loop iteration whose linearization point is the handler's return.        *)
(*                                                                          *)
(* A unit is a record                                                       *)
(*   [lead  : 0/1            leading colon                                  *)
(*    path  : Seq(mnemonic)  as received (a common command is <<"*XYZ">>)   *)
(*    query : BOOLEAN                                                       *)
(*    data  : Seq(datum)     datum = [text, kind, p1, p2] (rendered bytes,  *)
(*                           element kind, payload as the handler sees it)  *)
(*    lex   : "ok" | "hdr" | "data"   where a lexical fault sits, if any    *)
(*    raw   : byte sequence  the unit exactly as sent when lex # "ok"       *)
(*    h     : handler behaviour for this unit, see below]                   *)
(* Handler behaviour h = [pulls : Seq("req"|"opt"), res : [code, ext],      *)
(*    hdr : bytes, items : Seq(bytes), partial : BOOLEAN]                   *)
(*  - it pulls parameters in order (a missing required one fails with -109, *)
(*    a missing optional one yields nothing),                               *)
(*  - then (query form) writes its response header/items,                   *)
(*  - and returns res (NoErr = success); with partial it writes before      *)
(*    failing.                                                              *)
(* Execution state es = [cap, cur, n, calls, out, err, opt]:                *)
(*   cap   response buffer capacity; -1 = growable                     *)
(*   cur   branch that relative headers resolve from                        *)
(*   n     number of units processed                                        *)
(*   calls handler invocations so far [unit, leaf, form, got]               *)
(*   out   response buffer                                                  *)
(*   err   [lo, hi, ext]: NoFail, or the set of admissible error numbers    *)
(*         lo..hi the message failed with (ext = -1: any extended text)     *)
(*   opt   TRUE if the last recorded call may legitimately be absent        *)
(*         (the fault may surface before or after the handler is entered)   *)
EXTENDS ScpiTree, Integers

NoFail == [lo |-> 0, hi |-> 0, ext |-> 0]
Exactly(c, x) == [lo |-> c, hi |-> c, ext |-> x]
CommandErr == [lo |-> -199, hi |-> -100, ext |-> -1]
AnyErr     == [lo |-> -32768, hi |-> -1, ext |-> -1]
(* a response item that has no valid response form (e.g. a string with a non-ASCII byte): formatting it fails *)
BadItem == <<128>>
HasBadItem(h) == \E k \in 1..Len(h.items) : h.items[k] = BadItem

InitExec(cap) == [cap |-> cap, cur |-> Root, n |-> 0, calls |-> <<>>, out |-> <<>>, err |-> NoFail, opt |-> FALSE]

IsCommon(u) == u.path # <<>> /\ u.path[1] # <<>> /\ u.path[1][1] = 42     \* '*'

RECURSIVE JoinBytes(_, _)
JoinBytes(seqs, sep) == IF seqs = <<>> THEN <<>>
                        ELSE IF Len(seqs) = 1 THEN seqs[1]
                        ELSE seqs[1] \o sep \o JoinBytes(Tail(seqs), sep)

(* ---- rendering (what is sent) ---- *)
RenderUnit(u) ==
    IF u.lex # "ok" THEN u.raw
    ELSE (IF u.lead = 1 THEN <<58>> ELSE <<>>) \o JoinBytes(u.path, <<58>>)
         \o (IF u.query THEN <<63>> ELSE <<>>)
         \o (IF u.data = <<>> THEN <<>> ELSE <<32>> \o JoinBytes([k \in 1..Len(u.data) |-> u.data[k].text], <<44>>))
RenderMsg(units, ending) == JoinBytes([k \in 1..Len(units) |-> RenderUnit(units[k])], <<59>>) \o ending

(* ---- response text of one query unit (C10) ---- *)
UnitText(h) == (IF h.hdr = <<>> THEN <<>> ELSE h.hdr \o (IF h.items = <<>> THEN <<>> ELSE <<32>>))
               \o JoinBytes(h.items, <<44>>)
Segment(out, h) == (IF out = <<>> THEN <<>> ELSE <<59>>) \o UnitText(h)
Fits(es, seg)   == es.cap < 0 \/ Len(es.out) + Len(seg) <= es.cap

(* ---- what the handler receives (C06) ---- *)
Min(a, b) == IF a <= b THEN a ELSE b
RECURSIVE Pulled(_, _, _)
(* number of data elements handed out, and whether a required pull found nothing *)
Pulled(pulls, k, nd) ==
    IF k > Len(pulls) THEN [got |-> Min(Len(pulls), nd), missing |-> FALSE]
    ELSE IF k > nd /\ pulls[k] = "req" THEN [got |-> nd, missing |-> TRUE]
    ELSE Pulled(pulls, k + 1, nd)
Tok(d) == [kind |-> d.kind, p1 |-> d.p1, p2 |-> d.p2]

(* ---- one unit ---- *)
Abort(es, e, opt) == [es EXCEPT !.err = e, !.n = es.n + 1, !.opt = opt]

ExecUnit(es, u) ==
    IF es.err # NoFail THEN es                       \* C05: nothing runs after the first failure
    ELSE IF u.lex = "hdr" THEN Abort(es, CommandErr, FALSE)
    ELSE
    LET start == IF es.n = 0 \/ u.lead = 1 \/ IsCommon(u) THEN Root ELSE es.cur
        tgt   == Desig(start, u.path)
    IN IF tgt = {} THEN Abort(es, Exactly(-113, 0), FALSE)           \* C02: undefined header, no call
       ELSE
       LET t    == CHOOSE x \in tgt : TRUE
           h    == u.h
           nd   == Len(u.data)
           pl   == Pulled(h.pulls, 1, nd)
           call == [unit |-> es.n + 1, leaf |-> t.leaf, form |-> IF u.query THEN "query" ELSE "event",
                    got |-> [k \in 1..pl.got |-> Tok(u.data[k])]]
           es1  == [es EXCEPT !.calls = Append(es.calls, call),
                              !.cur = IF IsCommon(u) THEN es.cur ELSE t.level]
           seg  == IF u.query THEN Segment(es.out, h) ELSE <<>>
       IN IF u.lex = "data" THEN Abort(es1, CommandErr, TRUE)          \* lazy lexing: before or inside the handler
          ELSE IF u.query /\ es.out # <<>> /\ ~Fits(es, <<59>>)
               THEN Abort(es1, Exactly(-225, 0), TRUE)                 \* C11: the unit separator does not fit
          ELSE IF pl.missing THEN Abort(es1, Exactly(-109, 0), FALSE)  \* C06: missing parameter
          ELSE IF h.res # [code |-> 0, ext |-> 0] THEN Abort(es1, Exactly(h.res.code, h.res.ext), FALSE)  \* C05: handler-raised error (an Err(NoError ...) is a failure too)
          ELSE IF u.query /\ HasBadItem(h) THEN Abort(es1, AnyErr, FALSE)                 \* C05/C10: a datum that cannot be formatted fails the unit,
                                                                                          \* whatever is written after it
          ELSE IF u.query /\ ~Fits(es, seg) THEN Abort(es1, Exactly(-225, 0), FALSE)  \* C11: response does not fit
          ELSE IF pl.got < nd THEN Abort(es1, Exactly(-108, 0), FALSE) \* C06: surplus parameter
          ELSE [es1 EXCEPT !.out = es.out \o seg, !.n = es.n + 1, !.opt = FALSE]

(* ---- end of message: terminator iff some query produced output (C10) ---- *)
Finish(es) ==
    IF es.err # NoFail \/ es.out = <<>> THEN es
    ELSE IF Fits(es, <<10>>) THEN [es EXCEPT !.out = es.out \o <<10>>]
    ELSE [es EXCEPT !.err = Exactly(-225, 0), !.opt = FALSE]

RECURSIVE RunUnits(_, _)
RunUnits(es, units) == IF units = <<>> THEN es ELSE RunUnits(ExecUnit(es, Head(units)), Tail(units))
Run(cap, units) == Finish(RunUnits(InitExec(cap), units))
=========================================================================
