---------------------------- MODULE Mnemonic ----------------------------
(* SCPI-99 6.2.1 / 6.2.5: mnemonic matching (property C03; used by C02,    *)
(* C08, C17, C20).  A defined mnemonic is LONGform[n]: an upper-case short *)
(* form, an optional lower-case remainder and an optional numeric suffix.  *)
EXTENDS Bytes

(* split at the maximal trailing digit run; a string without a non-digit has no suffix *)
Split(m) ==
    LET t == TrailDigits(m, Len(m)) IN
    IF t = Len(m) THEN [alpha |-> m, suf |-> <<>>]
    ELSE [alpha |-> Take(m, Len(m) - t), suf |-> Drop(m, Len(m) - t)]

(* the short form: the leading run of upper-case letters / digits *)
RECURSIVE LastStrong(_, _)
LastStrong(d, k) == IF k = 0 THEN 0 ELSE IF IsUpper(d[k]) \/ IsDigit(d[k]) THEN k ELSE LastStrong(d, k - 1)
Short(d) == Take(d, LastStrong(d, Len(d)))      \* through the last upper-case letter or digit (for UPPERlower shapes: the upper-case part)

(* keyword comparison (MINimum, MAXimum, INFinity, DEFault, UP, ...): short or long form, any case *)
Compare(d, c) == EqIC(c, d) \/ EqIC(c, Short(d))

(* numeric suffix: absent means 1; compared as written ("01" is not "1") *)
Suf(x) == IF x = <<>> THEN <<49>> ELSE x

(* header mnemonic / character datum against a defined mnemonic: the alphabetic parts agree in
   short or long form and the numeric suffixes agree under the default-1 rule *)
Matches(def, c) ==
    LET D == Split(def)  C == Split(c) IN
    Compare(D.alpha, C.alpha) /\ Suf(D.suf) = Suf(C.suf)

(* ---- the lock-step scan with an `optional' latch, as a step machine (design twin) ---- *)
(* scans definition m and candidate s together; the candidate may stop only before the
   lower-case tail (i.e. right after the short form), and only if it has not entered it *)
RECURSIVE Scan(_, _, _, _)
Scan(m, s, k, optional) ==
    IF k > Len(m) THEN TRUE
    ELSE LET has == k <= Len(s)
             opt2 == IF IsLower(m[k]) /\ has THEN FALSE ELSE optional
         IN IF has THEN Lower(m[k]) = Lower(s[k]) /\ Scan(m, s, k + 1, opt2)
            ELSE (~(IsUpper(m[k]) \/ IsDigit(m[k])) /\ opt2) /\ Scan(m, s, k + 1, opt2)
ScanCompare(m, s) == Len(m) >= Len(s) /\ Scan(m, s, 1, TRUE)
=========================================================================
