------------------------------ MODULE Resp ------------------------------
(* IEEE 488.2 section 8 response data: syntax and denotation (C09, C20).   *)
(* An independent decoder per kind; TLC compares the denoted value with the *)
(* value that was formatted.                                                *)
EXTENDS Numeric, ScpiLex

(* ---- integers ---- *)
IsNR1(t) == LET st == IF t # <<>> /\ t[1] \in {43, 45} THEN 2 ELSE 1 IN
            st <= Len(t) /\ \A k \in st..Len(t) : IsDigit(t[k])
NR1Val(t) == LET st == IF t[1] \in {43, 45} THEN 2 ELSE 1 IN S(t[1] = 45, DigitsOf(SubSeq(t, st, Len(t))))

(* #H / #Q / #B + digits of the radix (488.2 8.7.5-7: upper-case prefix and hex digits) *)
RadixOf(form) == CASE form = "hex" -> 16 [] form = "oct" -> 8 [] form = "bin" -> 2
PrefixOf(form) == CASE form = "hex" -> 72 [] form = "oct" -> 81 [] form = "bin" -> 66
IsNonDec(t, form) == /\ Len(t) >= 3 /\ t[1] = 35 /\ t[2] = PrefixOf(form)
                     /\ \A k \in 3..Len(t) : IsRadixDig(t[k], RadixOf(form)) /\ ~IsLower(t[k])
NonDecVal(t, form) == S(FALSE, RadixVal(t, 3, Len(t) + 1, RadixOf(form), <<>>))

IntRespOk(form, neg, d, text) ==
    IF form = "dec" THEN IsNR1(text) /\ NR1Val(text) = S(neg, d)
    ELSE ~neg /\ IsNonDec(text, form) /\ NonDecVal(text, form) = S(FALSE, d)

(* ---- floats: NRf syntax; value must round back to the same float ---- *)
IsNRf(t) == t # <<>> /\ LET x == Datum(t, 1) IN x.r.v = "W" /\ x.r.els[1].t = "num" /\ x.next = Len(t) + 1
NanText    == <<57, 46, 57, 49, 69, 43, 51, 55>>          \* 9.91E+37
InfText    == <<57, 46, 57, 69, 43, 51, 55>>              \* 9.9E+37
NegInfText == <<45>> \o InfText
(* obs carries the ORIGINAL float's class and rounding interval *)
FloatRespOk(obs, text) ==
    CASE obs.cls = "nan" -> text = NanText
      [] obs.cls = "inf" -> text = (IF obs.neg THEN NegInfText ELSE InfText)
      [] OTHER -> IsNRf(text) /\ FloatFromDecimalOk(text, obs)

(* ---- strings: "..." with embedded double quotes doubled, 7-bit ASCII ---- *)
RECURSIVE Unquote(_, _)
(* content of a double-quoted string body (between the outer quotes); <<-1>> if a lone quote occurs *)
Unquote(b, k) == IF k > Len(b) THEN <<>>
                 ELSE IF b[k] = 34 THEN (IF k < Len(b) /\ b[k + 1] = 34
                                         THEN LET r == Unquote(b, k + 2) IN IF r = <<-1>> THEN r ELSE <<34>> \o r
                                         ELSE <<-1>>)
                 ELSE LET r == Unquote(b, k + 1) IN IF r = <<-1>> THEN r ELSE <<b[k]>> \o r
StringRespOk(val, text) ==
    /\ Len(text) >= 2 /\ text[1] = 34 /\ text[Len(text)] = 34
    /\ \A k \in 1..Len(text) : IsAscii(text[k])
    /\ Unquote(SubSeq(text, 2, Len(text) - 1), 1) = val

(* ---- definite length block: #<n><n digits = payload length><payload> ---- *)
BlockRespOk(val, text) ==
    /\ Len(text) >= 3 /\ text[1] = 35 /\ text[2] \in 49..57
    /\ LET n == text[2] - 48 IN
       /\ Len(text) >= 2 + n
       /\ AllDigits(text, 3, 2 + n)
       /\ DecVal(text, 3, 2 + n, 0) = Len(val)
       /\ SubSeq(text, 3 + n, Len(text)) = val

(* ---- comma separated list of NR1 ---- *)
RECURSIVE SplitAt(_, _, _)
SplitAt(t, sep, acc) ==
    LET p == FindByte(t, 1, {sep}) IN
    IF p = 0 THEN Append(acc, t) ELSE SplitAt(SubSeq(t, p + 1, Len(t)), sep, Append(acc, SubSeq(t, 1, p - 1)))
IntListRespOk(vals, text) ==
    LET parts == SplitAt(text, 44, <<>>) IN
    /\ Len(parts) = Len(vals)
    /\ \A k \in 1..Len(vals) : IsNR1(parts[k]) /\ NR1Val(parts[k]) = S(vals[k].neg, vals[k].d)

(* ---- error/event queue item: code,"message[;extended]" ---- *)
ErrItemOk(code, msg, ext, text) ==
    LET p == FindByte(text, 1, {44}) IN
    /\ p > 1
    /\ IsNR1(SubSeq(text, 1, p - 1)) /\ NR1Val(SubSeq(text, 1, p - 1)) = SOfInt(code)
    /\ StringRespOk(IF ext = <<>> THEN msg ELSE msg \o <<59>> \o ext, SubSeq(text, p + 1, Len(text)))
    /\ (code = 0 => msg = <<78, 111, 32, 101, 114, 114, 111, 114>>)          \* 0,"No error"

(* ---- enumeration mnemonic: selects the same variant and no other (C09, C20) ---- *)
EnumRespOk(mn, others, text) ==
    /\ Matches(mn, text)
    /\ \A k \in 1..Len(others) : ~Matches(others[k], text)
=========================================================================
