---------------------------- MODULE MCDecimal ----------------------------
(* Self-check of the exact-decimal oracle (Decimal.tla / Numeric.tla) by    *)
(* TLC: on a domain small enough for TLC's own integers the digit-sequence  *)
(* arithmetic must agree with native arithmetic, and the integer-conversion *)
(* relation IntFromDecimalOk must agree with a direct definition.           *)
EXTENDS Numeric, TLC

CONSTANT Limit                       \* naturals 0..Limit are cross-checked

VARIABLES a, b
Init == a = 0 /\ b = 0
Next == \/ a < Limit /\ a' = a + 1 /\ b' = b
        \/ b < Limit /\ b' = b + 1 /\ a' = a
Spec == Init /\ [][Next]_<<a, b>>

N(x) == NatOfInt(x)
RECURSIVE ValOf(_, _)
ValOf(d, k) == IF k > Len(d) THEN 0 ELSE d[k] * 10 ^ (Len(d) - k) + ValOf(d, k + 1)
V(d) == ValOf(d, 1)
Sgn(x) == IF x < 0 THEN -1 ELSE IF x > 0 THEN 1 ELSE 0

ArithOK ==
    /\ V(N(a)) = a /\ Strip(N(a)) = N(a)
    /\ V(Add(N(a), N(b))) = a + b
    /\ (a >= b => V(Sub(N(a), N(b))) = a - b)
    /\ Cmp(N(a), N(b)) = Sgn(a - b)
    /\ V(MulSmall(N(a), b % 10)) = a * (b % 10)
    /\ V(Halve(N(a))) = a \div 2 /\ IsEven(N(a)) = (a % 2 = 0)
    /\ (a > 0 => LET o == V(OddPart(N(a))) IN o % 2 = 1 /\ a % o = 0 /\ \E k \in 0..12 : o * 2 ^ k = a)
    /\ V(Shl(N(a), b % 4)) = a * 10 ^ (b % 4)
    /\ LET sa == SOfInt(a - (Limit \div 2))  sb == SOfInt(b - (Limit \div 2))
           ia == a - (Limit \div 2)          ib == b - (Limit \div 2) IN
       /\ SCmp(sa, sb) = Sgn(ia - ib)
       /\ LET s == SAdd(sa, sb) IN (IF s.neg THEN -V(s.d) ELSE V(s.d)) = ia + ib
       /\ LET s == SSub(sa, sb) IN (IF s.neg THEN -V(s.d) ELSE V(s.d)) = ia - ib

(* literal a.b (b a single decimal digit 0..9 taken as tenths) against u8 / i8:
   the nearest integer is allowed, both neighbours at .5, -222 exactly when the rounding leaves the type *)
Tenths == b % 10
LitBytes(neg, ip, t) == (IF neg THEN <<45>> ELSE <<>>) \o [k \in 1..Len(N(ip)) |-> N(ip)[k] + 48]
                        \o (IF ip = 0 THEN <<48>> ELSE <<>>) \o <<46, t + 48>>
Ok(ty, lit, r)  == IntFromDecimalOk(ty, lit, [k |-> "ok", code |-> 0, neg |-> r < 0, d |-> N(IF r < 0 THEN -r ELSE r)])
Err(ty, lit)    == IntFromDecimalOk(ty, lit, [k |-> "err", code |-> -222, neg |-> FALSE, d |-> <<>>])
RoundOK ==
    \A neg \in BOOLEAN :
      LET lit == LitBytes(neg, a, Tenths)
          sgn == IF neg THEN -1 ELSE 1
          lo  == sgn * a + (IF neg THEN -1 ELSE 0)            \* floor of the value
          near == IF Tenths < 5 THEN {sgn * a} ELSE IF Tenths > 5 THEN {sgn * (a + 1)} ELSE {sgn * a, sgn * (a + 1)}
      IN \A ty \in {"u8", "i8"} :
           LET mn == IF ty = "u8" THEN 0 ELSE -128   mx == IF ty = "u8" THEN 255 ELSE 127 IN
           /\ \A r \in (lo - 1)..(lo + 2) : Ok(ty, lit, r) <=> (r \in near /\ r >= mn /\ r <= mx)
           /\ Err(ty, lit) <=> (\E r \in near : r < mn \/ r > mx)
=========================================================================
