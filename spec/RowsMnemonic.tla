-------------------------- MODULE RowsMnemonic --------------------------
(* C03, binding B2: rows {def, cand, compare, match, hdr, chr} recorded     *)
(* from mnemonic_compare, mnemonic_match and Token::match_program_header    *)
(* (for a header mnemonic and for a character datum); each must equal the   *)
(* specification's verdict -- an iff, so false accepts and false rejects    *)
(* are both violations.                                                     *)
EXTENDS Mnemonic, TLC, Json, IOUtils

Rows == ndJsonDeserialize(IOEnv.ROWS)
N == Len(Rows)
VARIABLE i
Init == i = 1
Next == \E j \in {2 * i, 2 * i + 1} : j <= N /\ i' = j
Spec == Init /\ [][Next]_i

B(b) == IF b THEN 1 ELSE 0
(* keyword comparison is defined for mnemonics without numeric suffix only *)
RowOk(r) == /\ (Split(r.def).suf = <<>> => r.compare = B(Compare(r.def, r.cand)))
            /\ r.match = B(Matches(r.def, r.cand))
            /\ r.hdr = B(Matches(r.def, r.cand))
            /\ r.chr = B(Matches(r.def, r.cand))
Judge == IF RowOk(Rows[i]) THEN TRUE ELSE PrintT(<<"BAD", i>>)
=========================================================================
