------------------------------ MODULE Lists ------------------------------
(* SCPI-99 8.3.2 / 8.3.3: channel lists and numeric lists (property C19).   *)
(* An abstract list is a sequence of entries; Render gives the text inside  *)
(* the parentheses (after `@' for channel lists) and Expected the entries   *)
(* an iterator must yield, in order.                                        *)
(*  numeric entry : [k |-> "num", a |-> bytes] | [k |-> "range", a, b]      *)
(*  channel entry : [k |-> "spec", a |-> <<dims>>]                          *)
(*                | [k |-> "range", a |-> <<dims>>, b |-> <<dims>>]         *)
(*                | [k |-> "path", q |-> quote byte, p |-> bytes]           *)
(* where each dim is a record [t |-> text bytes, v |-> its value as decimal text].      *)
(* A corruption is [c |-> kind, at |-> entry index]; kinds are the ones the *)
(* property lists.                                                          *)
EXTENDS Bytes, Integers

RECURSIVE Join(_, _)
Join(seqs, sep) == IF seqs = <<>> THEN <<>> ELSE IF Len(seqs) = 1 THEN seqs[1] ELSE seqs[1] \o sep \o Join(Tail(seqs), sep)

DimsText(ds) == Join([i \in 1..Len(ds) |-> ds[i].t], <<33>>)              \* a!b!c
EntryText(e) ==
    CASE e.k = "num"   -> e.a
      [] e.k = "nrange" -> e.a \o <<58>> \o e.b
      [] e.k = "spec"  -> DimsText(e.a)
      [] e.k = "range" -> DimsText(e.a) \o <<58>> \o DimsText(e.b)
      [] e.k = "path"  -> <<e.q>> \o e.p \o <<e.q>>

NoCorr == [c |-> "none", at |-> 0]

(* text of the list with at most one corruption *)
Render(es, corr) ==
    LET txt(i) == IF corr.c = "third" /\ corr.at = i THEN EntryText(es[i]) \o <<58, 57>>       \* a:b:9 -- a third range end
                  ELSE IF corr.c = "foreign" /\ corr.at = i THEN <<36>> \o EntryText(es[i])    \* $entry
                  ELSE IF corr.c = "wsafter" /\ corr.at = i THEN EntryText(es[i]) \o <<32>>     \* entry followed by a blank
                  ELSE EntryText(es[i])
        sepBefore(i) == IF i = 1 THEN (IF corr.c = "lead" THEN <<44>> ELSE <<>>)
                        ELSE IF corr.c = "nosep" /\ corr.at = i THEN <<>>                       \* missing separator
                        ELSE IF corr.c = "dbl" /\ corr.at = i THEN <<44, 44>>                   \* doubled comma
                        ELSE <<44>>
    IN Join([i \in 1..Len(es) |-> sepBefore(i) \o txt(i)], <<>>) \o (IF corr.c = "trail" THEN <<44>> ELSE <<>>)   \* trail: list ends in a comma

(* how many entries are yielded before the error surfaces: a range [lo, hi] (0,0 with none = no error) *)
ErrWindow(es, corr) ==
    CASE corr.c = "none"    -> [err |-> FALSE, lo |-> Len(es), hi |-> Len(es)]
      [] corr.c = "lead"    -> [err |-> TRUE, lo |-> 0, hi |-> 0]
      [] corr.c = "trail"   -> [err |-> TRUE, lo |-> Len(es), hi |-> Len(es)]          \* every entry first; then an error OR the end (not named by C19: `either')
      [] corr.c \in {"nosep", "dbl", "foreign", "dimmix"} -> [err |-> TRUE, lo |-> corr.at - 1, hi |-> corr.at - 1]
      [] corr.c = "third"   -> [err |-> TRUE, lo |-> corr.at - 1, hi |-> corr.at]      \* the a:b part may or may not be yielded first
      [] corr.c = "wsafter" -> [err |-> TRUE, lo |-> corr.at - 1, hi |-> corr.at]      \* the entry before the blank may be yielded first

(* a corruption is applicable to a list *)
Applicable(es, corr, channel) ==
    CASE corr.c = "none"  -> TRUE
      [] corr.c = "lead"  -> TRUE
      [] corr.c = "trail" -> TRUE
      [] corr.c = "dbl"   -> corr.at \in 2..Len(es)
      [] corr.c = "foreign" -> corr.at \in 1..Len(es)
      [] corr.c = "wsafter" -> corr.at \in 1..Len(es)
      [] corr.c = "nosep" -> ~channel /\ corr.at \in 2..Len(es) /\ es[corr.at].a[1] \in {43, 45}   \* 1-2, 1+3: still two numbers
      [] corr.c = "third" -> corr.at \in 1..Len(es) /\ es[corr.at].k \in {"range", "nrange"}
      [] corr.c = "dimmix" -> channel /\ corr.at \in 1..Len(es) /\ es[corr.at].k = "range" /\ Len(es[corr.at].a) # Len(es[corr.at].b)
=========================================================================
