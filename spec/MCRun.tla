------------------------------ MODULE MCRun ------------------------------
(* Enumerates byte strings exactly as MCLex does and, for every string that *)
(* ScpiLex finds well-formed, prints the execution ScpiRun expects on the   *)
(* tree (handler calls with the tokens each receives, returned error,       *)
(* response), in the case format of MCExec so that the same replay binds it *)
(* to Node::run.                                                            *)
EXTENDS MCLex, ScpiRun, Json

EmitRun ==
    LET s == Prefix \o bytes IN
    IF Decompose(s).v # "W" THEN TRUE
    ELSE LET us == UnitsOfBytes(s)  f == Run(-1, us) IN
         IF us = <<>> THEN TRUE
         ELSE PrintT(ToJson([bytes |-> s, scripts |-> [k \in 1..Len(us) |-> us[k].h], cap |-> -1,
                             calls |-> f.calls, opt |-> f.opt, err |-> f.err, out |-> f.out, nunits |-> Len(us)]))
=========================================================================
