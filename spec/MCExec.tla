----------------------------- MODULE MCExec -----------------------------
(* Bounded enumeration of program messages for ScpiExec (C02, C05, C06,    *)
(* C10, C11; binding A1).  A behaviour appends one unit per step and        *)
(* executes it, so every reachable state is a complete message together     *)
(* with its execution state; each state is emitted, once per ending, with   *)
(* the expected observable outcome for replay on the real dispatcher.       *)
EXTENDS ScpiExec, ScpiLex, TLC, Json

CONSTANTS FirstUnits,   \* unit records allowed in first position
          NextUnits,    \* unit records allowed in later positions
          MaxUnits,
          Endings,      \* set of byte sequences appended after the last unit
          Caps,         \* set of response buffer capacities (-1 = growable)
          Cands,        \* candidate mnemonics used in headers (for the tree-validity check)
          TwinAll,      \* TRUE: compare designation and first-match search from every branch (thorough)
          Emit

VARIABLES units, es
vars == <<units, es>>

Init == units = <<>> /\ \E c \in Caps : es = InitExec(c)
Next == /\ Len(units) < MaxUnits
        /\ \E u \in (IF units = <<>> THEN FirstUnits ELSE NextUnits) :
              /\ units' = Append(units, u)
              /\ es' = ExecUnit(es, u)
Spec == Init /\ [][Next]_vars

Scripts == [k \in 1..Len(units) |-> units[k].h]

EmitCase ==
    IF Emit /\ units # <<>>
    THEN \A e \in Endings :
           LET f == Finish(es) IN
           PrintT(ToJson([bytes |-> RenderMsg(units, e), scripts |-> Scripts, cap |-> es.cap,
                          calls |-> f.calls, opt |-> f.opt, err |-> f.err, out |-> f.out,
                          nunits |-> Len(units)]))
    ELSE TRUE

(* ---------------- design-level checks on every enumerated execution ---------------- *)
(* C05: handlers run left to right, each unit at most once *)
Order == \A a, b \in 1..Len(es.calls) : a < b => es.calls[a].unit < es.calls[b].unit
(* C05: after the first failure nothing changes any more *)
Frozen == [][es.err # NoFail => (es'.calls = es.calls /\ es'.err = es.err /\ es'.out = es.out)]_vars
(* C02: relative resolution always starts from a branch *)
CurIsBranch == es.cur \in Branches
(* C02: on SCPI-valid trees the declarative designation is unique and equals first-match search *)
Twin == \A k \in 1..Len(units) : units[k].lex = "ok" =>
           \A b \in (IF TwinAll THEN Branches ELSE {Root, es.cur}) :
                               /\ Cardinality(Desig(b, units[k].path)) <= 1
                               /\ Resolve(b, units[k].path) = Desig(b, units[k].path)
(* the tree under test is SCPI-valid for the candidate mnemonics in use (DESIGN 2.4-4) *)
Valid == ValidTree(Cands)
(* C06: a handler only ever sees data elements of its own unit *)
OwnData == \A c \in 1..Len(es.calls) :
             LET u == units[es.calls[c].unit] IN
             /\ Len(es.calls[c].got) <= Len(u.data)
             /\ \A k \in 1..Len(es.calls[c].got) : es.calls[c].got[k] = Tok(u.data[k])
(* C04 x C05/C06/C10: the rendered message is what ScpiLex says it is -- well-formed when every unit is,
   otherwise malformed in one of the ways the property lists (never merely "unspecified"), so that the
   hand-written fault templates cannot demand more than the lexical specification does *)
LexAgrees == units # <<>> => \A e \in Endings :
                LET d == Decompose(RenderMsg(units, e)) IN
                IF \A k \in 1..Len(units) : units[k].lex = "ok" THEN d.v = "W" ELSE d.v = "M"
(* C10 / C11: framing of a successful response; the buffer never exceeds its capacity *)
Count(s, b) == Cardinality({k \in 1..Len(s) : s[k] = b})
Framing == LET f == Finish(es) IN
           /\ (es.cap >= 0 => Len(f.out) <= es.cap)
           /\ (f.err = NoFail =>
                 /\ (f.out = <<>>) <=> (\A k \in 1..Len(units) : ~units[k].query \/ UnitText(units[k].h) = <<>>)
                 /\ (f.out # <<>> => f.out[Len(f.out)] = 10))
=========================================================================
