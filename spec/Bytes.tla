------------------------------ MODULE Bytes ------------------------------
(* Byte classes (ASCII).  Strings are sequences of byte values 0..255.      *)
EXTENDS Naturals, Sequences

IsUpper(c) == c \in 65..90
IsLower(c) == c \in 97..122
IsAlpha(c) == IsUpper(c) \/ IsLower(c)
IsDigit(c) == c \in 48..57
IsAlnum(c) == IsAlpha(c) \/ IsDigit(c)
IsAscii(c) == c \in 0..127
Lower(c)   == IF IsUpper(c) THEN c + 32 ELSE c
Upper(c)   == IF IsLower(c) THEN c - 32 ELSE c

EqIC(a, b) == Len(a) = Len(b) /\ \A k \in 1..Len(a) : Lower(a[k]) = Lower(b[k])

(* length of the maximal prefix of s all of whose bytes satisfy P *)
RECURSIVE PrefixLen(_, _, _)
PrefixLen(s, P(_), k) == IF k <= Len(s) /\ P(s[k]) THEN PrefixLen(s, P, k + 1) ELSE k - 1

(* length of the maximal suffix of s all of whose bytes are digits *)
RECURSIVE TrailDigits(_, _)
TrailDigits(s, k) == IF k >= 1 /\ IsDigit(s[k]) THEN 1 + TrailDigits(s, k - 1) ELSE 0

Take(s, n) == SubSeq(s, 1, n)
Drop(s, n) == SubSeq(s, n + 1, Len(s))
=========================================================================
