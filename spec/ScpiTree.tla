---------------------------- MODULE ScpiTree ----------------------------
(* SCPI-99 6.2: the command tree and header resolution (property C02).     *)
(*                                                                         *)
(* A tree is a record of sequences indexed by node id (node 1 = root):     *)
(*   Tree.parent[n], Tree.kind[n] \in {"leaf","branch"}, Tree.name[n]      *)
(*   (byte sequence), Tree.dflt[n] (optional/default node).                *)
(* Common commands are leaves of the root whose name starts with `*'.      *)
EXTENDS Mnemonic, FiniteSets

CONSTANT Tree,
         MCands   \* candidate mnemonics for which Matches is tabulated once (an evaluation cache only)

Nodes == 1..Len(Tree.kind)
Root  == 1
Kids(b)   == {c \in Nodes : c # Root /\ Tree.parent[c] = b}
IsLeaf(c) == Tree.kind[c] = "leaf"
Name(c)   == Tree.name[c]
Dflt(c)   == Tree.dflt[c]
MTab == [m \in MCands |-> {n \in 2..Len(Tree.kind) : Matches(Tree.name[n], m)}]
Hit(c, m) == IF m \in MCands THEN c \in MTab[m] ELSE Matches(Name(c), m)
DefBranches(b) == {c \in Kids(b) : ~IsLeaf(c) /\ Dflt(c)}
DefLeafKids(b) == {c \in Kids(b) : IsLeaf(c) /\ Dflt(c)}

(* leaves reachable from branch b through default nodes only (the header ended at b) *)
RECURSIVE DefLeaves(_)
DefLeaves(b) == DefLeafKids(b) \cup UNION {DefLeaves(d) : d \in DefBranches(b)}

(* Declarative designation: `path' (a non-empty sequence of received mnemonics) designates leaf L
   from branch b iff it spells the names on the way from b to L after deleting any subset of the
   default nodes on that way.  Result: set of [leaf, level] where level is the branch in which
   the last explicitly named node lives. *)
RECURSIVE Desig(_, _)
Desig(b, path) ==
    LET m == Head(path)  rest == Tail(path) IN
    UNION { IF Hit(c, m)
            THEN IF IsLeaf(c) THEN (IF rest = <<>> THEN {[leaf |-> c, level |-> b]} ELSE {})
                 ELSE IF rest = <<>> THEN {[leaf |-> l, level |-> b] : l \in DefLeaves(c)}
                      ELSE Desig(c, rest)
            ELSE {} : c \in Kids(b) }
    \cup UNION { Desig(d, path) : d \in DefBranches(b) }

Branches == {n \in Nodes : ~IsLeaf(n)}

(* ---- code-shaped twin: first match without backtracking, default branch as fallback ---- *)
RECURSIVE Resolve(_, _)
FirstMatch(b, m) == LET S == {c \in Kids(b) : Hit(c, m)} IN
                    IF S = {} THEN 0 ELSE CHOOSE c \in S : \A x \in S : c <= x
RECURSIVE ResolveEnd(_)
ResolveEnd(b) == IF DefLeafKids(b) # {} THEN {CHOOSE l \in DefLeafKids(b) : \A x \in DefLeafKids(b) : l <= x}
                 ELSE IF DefBranches(b) # {} THEN ResolveEnd(CHOOSE d \in DefBranches(b) : \A x \in DefBranches(b) : d <= x)
                 ELSE {}
Resolve(b, path) ==
    LET m == Head(path)  rest == Tail(path)  c == FirstMatch(b, m) IN
    IF c # 0
    THEN IF IsLeaf(c) THEN (IF rest = <<>> THEN {[leaf |-> c, level |-> b]} ELSE {})
         ELSE IF rest = <<>> THEN {[leaf |-> l, level |-> b] : l \in ResolveEnd(c)} ELSE Resolve(c, rest)
    ELSE IF DefBranches(b) # {}
         THEN Resolve(CHOOSE d \in DefBranches(b) : \A x \in DefBranches(b) : d <= x, path)
         ELSE {}

(* ---- SCPI-valid trees: no expectation may depend on search priority ---- *)
(* names reachable from b by default-branch descent only (these merge into b's level) *)
RECURSIVE Merged(_)
Merged(b) == Kids(b) \cup UNION {Merged(d) : d \in DefBranches(b)}

NoClash(b, cands) ==           \* no candidate matches two nodes merged into b's level
    \A m \in cands : Cardinality({c \in Merged(b) : Hit(c, m)}) <= 1
OneDefault(b) == Cardinality(DefLeafKids(b)) <= 1 /\ Cardinality(DefBranches(b)) <= 1
                 /\ Cardinality(DefLeaves(b)) <= 1
AnonOnlyDefaultLeaf == \A n \in Nodes \ {Root} : Name(n) = <<>> => (IsLeaf(n) /\ Dflt(n))
ValidTree(cands) == /\ \A b \in Branches : NoClash(b, cands) /\ OneDefault(b)
                    /\ AnonOnlyDefaultLeaf
=========================================================================
