----------------------------- MODULE Numeric -----------------------------
(* Denotation of program data as numbers (properties C07, C08, C17).       *)
(* Everything is an outcome SET: `...Ok(obs)' says whether an observed      *)
(* conversion result is one the property allows.                            *)
(*                                                                          *)
(* Observations:  [k |-> "ok", neg |-> BOOLEAN, d |-> natural] | [k |-> "err", code |-> Int] *)
EXTENDS Decimal, Mnemonic

Lit(str) == str       \* documentation marker: byte sequences are written as TLA+ tuples by the generator

(* ---------------- integer targets ---------------- *)
IntTypes == {"u8", "i8", "u16", "i16", "u32", "i32", "u64", "i64", "usize", "isize"}
Bits(ty) == CASE ty \in {"u8", "i8"} -> 8 [] ty \in {"u16", "i16"} -> 16 [] ty \in {"u32", "i32"} -> 32 [] OTHER -> 64
Signed(ty) == ty \in {"i8", "i16", "i32", "i64", "isize"}

RECURSIVE Pow2(_)
Pow2(n) == IF n = 0 THEN <<1>> ELSE MulSmall(Pow2(n - 1), 2)              \* 2^n as a natural
One == <<1>>
MaxOf(ty) == S(FALSE, Sub(Pow2(IF Signed(ty) THEN Bits(ty) - 1 ELSE Bits(ty)), One))
MinOf(ty) == IF Signed(ty) THEN S(TRUE, Pow2(Bits(ty) - 1)) ELSE S(FALSE, <<>>)
InRange(ty, r) == SLe(MinOf(ty), r) /\ SLe(r, MaxOf(ty))

(* "exactness is required up to the resolution of a double (of a single for 8/16-bit targets)": an ideal
   implementation rounds the literal v to the nearest double d (|d - v| <= ulp/2 <= |v| * 2^-53) and then
   rounds d to an integer.  So r is admissible iff |r - v| <= 1/2 + tol(v) with tol(v) = 1.2e-16 |v|
   (6e-8 |v| for the single-precision intermediates) -- except that from 2^52 on every double is itself an
   integer, so only the tolerance remains. *)
TolDigits(ty) == IF Bits(ty) <= 16 THEN 8 ELSE 17
TolMul(ty)    == IF Bits(ty) <= 16 THEN 6 ELSE 12
TwoTo52 == <<4, 5, 0, 3, 5, 9, 9, 6, 2, 7, 3, 7, 0, 4, 9, 6>>

Tiny(v) == v.d = <<>> \/ Len(v.d) + v.e < -30            \* |v| < 10^-30: indistinguishable from zero
Huge(v) == IntDigits(v) > 25                             \* beyond every integer type by far

(* all quantities scaled by 10^k so that they are integers *)
Scale(ty, v)   == (IF v.e < 0 THEN -v.e ELSE 0) + TolDigits(ty)
VS(ty, v)      == S(v.neg, Shl(v.d, v.e + Scale(ty, v)))
RS(ty, v, r)   == S(r.neg, Shl(r.d, Scale(ty, v)))
AllIntegral(ty, v) == Bits(ty) > 16 /\ Cmp(VS(ty, v).d, Shl(TwoTo52, Scale(ty, v))) >= 0       \* |v| >= 2^52
(* a value that is itself a double has no representation error: from 2^52 on (where the tolerance is all
   that is left) an integer whose odd part is below 2^53 must convert exactly -- e.g. the literal
   -9223372036854775808.0 is i64::MIN, never -222 *)
TwoTo53 == <<9, 0, 0, 7, 1, 9, 9, 2, 5, 4, 7, 4, 0, 9, 9, 2>>
IntegralDigits(v) ==                     \* digits of |v| when v is an integer, <<-1>> otherwise
    IF v.e >= 0 THEN Shl(v.d, v.e)
    ELSE IF -v.e >= Len(v.d) THEN <<-1>>
    ELSE IF \A i \in (Len(v.d) + v.e + 1)..Len(v.d) : v.d[i] = 0 THEN SubSeq(v.d, 1, Len(v.d) + v.e) ELSE <<-1>>
ExactDouble(v) == LET n == IntegralDigits(v) IN n # <<-1>> /\ Cmp(OddPart(n), TwoTo53) < 0
Band(ty, v)    == Add(IF AllIntegral(ty, v) THEN <<>> ELSE Shl(<<5>>, Scale(ty, v) - 1),           \* 1/2
                      IF AllIntegral(ty, v) /\ ExactDouble(v) THEN <<>>
                      ELSE MulSmall(Shl(v.d, v.e + Scale(ty, v) - TolDigits(ty)), TolMul(ty)))     \* + tolerance
(* integer r is an admissible rounding of v *)
Near(ty, v, r) == Cmp(SSub(RS(ty, v, r), VS(ty, v)).d, Band(ty, v)) <= 0
(* some admissible rounding of v lies outside the type *)
Beyond(ty, v) ==
    LET up == SAdd(VS(ty, v), S(FALSE, Band(ty, v)))  dn == SSub(VS(ty, v), S(FALSE, Band(ty, v))) IN
    \/ SLe(RS(ty, v, SAdd(MaxOf(ty), S(FALSE, One))), up)
    \/ SLe(dn, RS(ty, v, SSub(MinOf(ty), S(FALSE, One))))

Zero == [neg |-> FALSE, d |-> <<>>, e |-> 0]

(* decimal literal -> integer type *)
IntFromDecimalOk(ty, lit, obs) ==
    LET v0 == ParseNRf(lit) IN
    IF Huge(v0) THEN obs.k = "err" /\ obs.code = -222
    ELSE LET v == IF Tiny(v0) THEN Zero ELSE v0 IN
         \/ obs.k = "ok"  /\ InRange(ty, S(obs.neg, obs.d)) /\ Near(ty, v, S(obs.neg, obs.d))
         \/ obs.k = "err" /\ obs.code = -222 /\ Beyond(ty, v)

IsCmdErr(obs) == obs.k = "err" /\ obs.code \in -199..-100
(* an error the library RETURNED (a 16-bit error/event number); the harness marks a panic with 99999, which is never this *)
Rejected(obs) == obs.k = "err" /\ obs.code \in -32768..32767

Kw(name) == name          \* keywords are byte sequences
MAXimum == <<77, 65, 88, 105, 109, 117, 109>>
MINimum == <<77, 73, 78, 105, 109, 117, 109>>
DEFault == <<68, 69, 70, 97, 117, 108, 116>>
UPkw    == <<85, 80>>
DOWNkw  == <<68, 79, 87, 78>>
INFinity  == <<73, 78, 70, 105, 110, 105, 116, 121>>
NINFinity == <<78, 73, 78, 70, 105, 110, 105, 116, 121>>
NANkw   == <<78, 65, 78>>
ONkw    == <<79, 78>>
OFFkw   == <<79, 70, 70>>

(* IEEE 488.2 7.7.2.4.1 size limits of a decimal literal: more than 255 mantissa digits after the leading zeros, or an
   exponent beyond +-32000.  A lexer may refuse such a literal with a command error (then no conversion is attempted). *)
RECURSIVE SigFrom(_, _, _)
SigFrom(s, k, started) ==
    IF k > Len(s) \/ s[k] \in {69, 101} THEN 0
    ELSE IF s[k] \in 48..57 THEN (IF started \/ s[k] # 48 THEN 1 + SigFrom(s, k + 1, TRUE) ELSE SigFrom(s, k + 1, FALSE))
    ELSE SigFrom(s, k + 1, started)
ExpDigitsBeyond(s) ==
    LET e == FindByte(s, 1, {69, 101}) IN
    IF e = 0 THEN FALSE
    ELSE LET st == IF e + 1 <= Len(s) /\ s[e + 1] \in {43, 45} THEN e + 2 ELSE e + 1 IN SmallVal(s, st, Len(s), 0) > 32000
Beyond4882(lit) == SigFrom(lit, 1, FALSE) > 255 \/ ExpDigitsBeyond(lit)

(* any data element -> integer type (C07).  row.kind is the element type, row.lit its text,
   row.val the exact value of a non-decimal literal (natural) *)
(* the exact value of a well-formed non-decimal literal, computed from its text (not from the
   lexer's token): #H / #Q / #B in either case followed by digits of that radix *)
NdDigit(b) == IF b \in 48..57 THEN b - 48 ELSE IF b \in 65..70 THEN b - 55 ELSE IF b \in 97..102 THEN b - 87 ELSE 99
NdRadix(b) == IF b \in {72, 104} THEN 16 ELSE IF b \in {81, 113} THEN 8 ELSE IF b \in {66, 98} THEN 2 ELSE 0
NonDecWellFormed(lit) == /\ Len(lit) >= 3 /\ lit[1] = 35 /\ NdRadix(lit[2]) # 0
                 /\ \A i \in 3..Len(lit) : NdDigit(lit[i]) < NdRadix(lit[2])
RECURSIVE NdFold(_, _, _, _)
NdFold(lit, i, r, acc) == IF i > Len(lit) THEN acc
                          ELSE NdFold(lit, i + 1, r, Add(MulSmall(acc, r), NatOfInt(NdDigit(lit[i]))))
NonDecValue(lit) == NdFold(lit, 3, NdRadix(lit[2]), <<>>)

IntOk(ty, kind, lit, val, obs) ==
    CASE kind = "num" -> IntFromDecimalOk(ty, lit, obs)
      [] kind = "hex" -> LET v == IF NonDecWellFormed(lit) THEN NonDecValue(lit) ELSE val IN
                         IF InRange(ty, S(FALSE, v)) THEN obs.k = "ok" /\ ~obs.neg /\ obs.d = v
                         ELSE obs.k = "err" /\ obs.code = -222
      [] kind = "chr" -> IF Compare(MAXimum, lit) THEN obs.k = "ok" /\ S(obs.neg, obs.d) = MaxOf(ty)
                         ELSE IF Compare(MINimum, lit) THEN obs.k = "ok" /\ S(obs.neg, obs.d) = MinOf(ty)
                         ELSE IsCmdErr(obs)
      [] OTHER -> IsCmdErr(obs)                       \* suffixed number, string, block, expression

(* ---------------- booleans (C08) ---------------- *)
BoolOk(kind, lit, obs) ==
    CASE kind = "chr" -> IF EqIC(lit, ONkw) THEN obs.k = "ok" /\ obs.d = <<1>>
                         ELSE IF EqIC(lit, OFFkw) THEN obs.k = "ok" /\ obs.d = <<>>
                         ELSE Rejected(obs)
      [] kind = "num" -> LET v0 == ParseNRf(lit)  v == IF Tiny(v0) THEN Zero ELSE v0 IN
                         IF Huge(v0) THEN (obs.k = "ok" /\ obs.d = <<1>>) \/ (obs.k = "err" /\ obs.code = -222)
                         ELSE \/ obs.k = "ok" /\ obs.d = <<>>  /\ Near("isize", v, S(FALSE, <<>>))          \* rounds to zero
                              \/ obs.k = "ok" /\ obs.d = <<1>> /\ (Near("isize", v, S(v.neg, One)) \/ ~Near("isize", v, S(FALSE, <<>>)))
                              \/ obs.k = "err" /\ obs.code = -222 /\ Beyond("isize", v)
      [] kind = "hex" -> TRUE                         \* <numeric_value> admits it; not documented either way
      [] OTHER -> IsCmdErr(obs)

(* ---------------- floats (C08) ---------------- *)
(* decimal text "ddd.ddd" (harness-printed exact expansions) -> [d, e] *)
ParsePlain(s) ==
    LET dot == FindByte(s, 1, {46}) IN
    IF dot = 0 THEN [d |-> DigitsOf(s), e |-> 0]
    ELSE [d |-> DigitsOf(SubSeq(s, 1, dot - 1) \o SubSeq(s, dot + 1, Len(s))), e |-> -(Len(s) - dot)]
(* compare magnitudes of two decimals [d, e] *)
CmpMag(a, b) ==
    IF a.d = <<>> \/ b.d = <<>> THEN Cmp(a.d, b.d)
    ELSE IF Len(a.d) + a.e < Len(b.d) + b.e THEN -1
    ELSE IF Len(a.d) + a.e > Len(b.d) + b.e THEN 1
    ELSE LET m == IF a.e < b.e THEN a.e ELSE b.e IN Cmp(Shl(a.d, a.e - m), Shl(b.d, b.e - m))

(* obs = [k |-> "ok", cls \in {"fin","zero","inf","nan"}, neg, lo, hi, even, ismax, ismin] | err.
   For a finite non-zero result x the harness supplies the exact decimal expansions of the midpoints to
   its two neighbours (lo < |x| < hi) and whether x's mantissa is even; for an infinite result `lo' is the
   midpoint between the largest finite value and 2^emax; for zero `hi' is half the smallest subnormal. *)
FloatFromDecimalOk(lit, obs) ==
    LET v == ParseNRf(lit)  mag == [d |-> v.d, e |-> v.e] IN
    /\ obs.k = "ok"
    /\ obs.cls # "nan"
    /\ obs.neg = (lit[1] = 45)                                           \* sign preserved, also for zero (IEEE 754 signed zero)
    /\ CASE obs.cls = "fin"  -> LET cl == CmpMag(mag, ParsePlain(obs.lo))  ch == CmpMag(mag, ParsePlain(obs.hi)) IN
                                /\ (cl > 0 \/ (cl = 0 /\ obs.even))
                                /\ (ch < 0 \/ (ch = 0 /\ obs.even))
         [] obs.cls = "inf"  -> CmpMag(mag, ParsePlain(obs.lo)) >= 0
         [] obs.cls = "zero" -> CmpMag(mag, ParsePlain(obs.hi)) <= 0

FloatOk(kind, lit, obs) ==
    CASE kind = "num" -> FloatFromDecimalOk(lit, obs)
      [] kind = "chr" ->
            IF Compare(INFinity, lit) THEN obs.k = "ok" /\ obs.cls = "inf" /\ ~obs.neg
            ELSE IF Compare(NINFinity, lit) THEN obs.k = "ok" /\ obs.cls = "inf" /\ obs.neg
            ELSE IF Compare(NANkw, lit) THEN obs.k = "ok" /\ obs.cls = "nan"
            ELSE IF Compare(MAXimum, lit) THEN obs.k = "ok" /\ obs.ismax
            ELSE IF Compare(MINimum, lit) THEN obs.k = "ok" /\ obs.ismin
            ELSE IsCmdErr(obs)
      [] kind = "hex" -> TRUE                         \* unspecified cell (see BoolOk)
      [] OTHER -> IsCmdErr(obs)

(* ---------------- which element types a target accepts (C08) ---------------- *)
(* targets: "bytes" (&[u8]), "utf8" (&str), "arb", "char", "expr".  utf8ok: payload is valid UTF-8 *)
Accepts(target, kind) ==
    CASE target = "bytes" -> kind = "str"
      [] target = "utf8"  -> kind \in {"str", "blk"}
      [] target = "arb"   -> kind = "blk"
      [] target = "char"  -> kind = "chr"
      [] target = "expr"  -> kind = "expr"
AcceptOk(target, kind, utf8ok, obs) ==
    IF ~Accepts(target, kind) THEN IsCmdErr(obs)
    ELSE IF target = "utf8" /\ ~utf8ok THEN IsCmdErr(obs)          \* text that is not UTF-8: a data fault (command error)
    ELSE obs.k = "ok" /\ obs.same          \* the payload handed out is the element's payload

(* ---------------- <numeric_value> (C17) ---------------- *)
(* which special form a character datum denotes, if any *)
NvKeyword(lit) == IF Compare(MAXimum, lit) THEN "max" ELSE IF Compare(MINimum, lit) THEN "min"
                  ELSE IF Compare(DEFault, lit) THEN "def" ELSE IF Compare(UPkw, lit) THEN "up"
                  ELSE IF Compare(DOWNkw, lit) THEN "down" ELSE "none"

(* signed decimals [nan, neg, d, e]; nan = TRUE marks a float NaN (the other fields are then meaningless) *)
IsNan(x) == x.nan
DCmp(a, b) == IF a.d = <<>> /\ b.d = <<>> THEN 0
              ELSE IF a.neg /\ ~b.neg THEN -1 ELSE IF ~a.neg /\ b.neg THEN 1
              ELSE IF a.neg THEN CmpMag(b, a) ELSE CmpMag(a, b)

(* variant: what NumericValue::try_from produced; t/min/max/def: decimals (possibly NaN); hasdef: BOOLEAN
   final: observed result of resolving: [k |-> "ok", v |-> decimal] | [k |-> "err", code] *)
SameVal(a, b) == (IsNan(a) /\ IsNan(b)) \/ (~IsNan(a) /\ ~IsNan(b) /\ DCmp(a, b) = 0)
NvResolveOk(variant, t, min, max, hasdef, def, final) ==
    CASE variant = "max"  -> final.k = "ok" /\ SameVal(final.v, max)
      [] variant = "min"  -> final.k = "ok" /\ SameVal(final.v, min)
      [] variant = "def"  -> IF hasdef THEN final.k = "ok" /\ SameVal(final.v, def) ELSE final.k = "err" /\ final.code = -224
      [] variant \in {"up", "down"} -> final.k = "err" /\ final.code = -224
      [] variant = "value" ->
            IF ~IsNan(t) /\ ~IsNan(min) /\ ~IsNan(max) /\ DCmp(min, t) <= 0 /\ DCmp(t, max) <= 0
            THEN final.k = "ok" /\ SameVal(final.v, t)
            ELSE final.k = "err" /\ final.code = -222
=========================================================================
