---------------------------- MODULE RowsResp ----------------------------
(* Row validation (binding B2) for C09 and C20.  One row per formatted      *)
(* value: the value, the emitted text and whether the library's own parser  *)
(* maps the text back to the value (`rep').                                 *)
(*  t="int"  form neg d text rep    t="flt" obs text rep    t="bool" v text rep *)
(*  t="str"|"blk"|"chr"|"expr" val text rep   t="list" vals text            *)
(*  t="err" code msg ext text       t="enum" mn others text rep             *)
(*  t="from" mn others idx cand got kind code     derived FromMnemonic / TryFrom (C20) *)
EXTENDS Resp, TLC, Json, IOUtils

Rows == ndJsonDeserialize(IOEnv.ROWS)
N == Len(Rows)
VARIABLE i
Init == i = 1
Next == \E j \in {2 * i, 2 * i + 1} : j <= N /\ i' = j
Spec == Init /\ [][Next]_i

(* C20: the variant a candidate designates: the unique k with Matches(mns[k], cand), else 0 *)
Designated(mns, cand) == LET Sx == {k \in 1..Len(mns) : Matches(mns[k], cand)} IN
                         IF Sx = {} THEN 0 ELSE CHOOSE k \in Sx : TRUE
FromOk(r) ==
    CASE r.kind = "chr" -> LET k == Designated(r.mns, r.cand) IN
                           /\ r.from = k                                     \* from_mnemonic
                           /\ (IF k = 0 THEN r.code = -224 ELSE r.code = 0 /\ r.got = k)   \* TryFrom<Token>
      [] OTHER -> r.code = -104                                              \* other element types: type error

RowOk(r) ==
    CASE r.t = "int"  -> IntRespOk(r.form, r.neg, r.d, r.text) /\ r.rep
      [] r.t = "flt"  -> FloatRespOk(r.obs, r.text) /\ r.rep
      [] r.t = "bool" -> r.text = (IF r.v = 1 THEN <<49>> ELSE <<48>>) /\ r.rep
      [] r.t = "str"  -> StringRespOk(r.val, r.text) /\ r.rep
      [] r.t = "strrep" -> r.rep                       \* the library's own parser returns the original string
      [] r.t = "blk"  -> BlockRespOk(r.val, r.text) /\ r.rep
      [] r.t = "chr"  -> r.text = r.val /\ r.rep
      [] r.t = "expr" -> r.text = <<40>> \o r.val \o <<41>> /\ r.rep
      [] r.t = "list" -> IntListRespOk(r.vals, r.text)
      [] r.t = "err"  -> ErrItemOk(r.code, r.msg, r.ext, r.text)
      [] r.t = "enum" -> EnumRespOk(r.mn, r.others, r.text) /\ r.rep /\ r.own
      [] r.t = "from" -> FromOk(r)
      [] r.t = "unitfail" -> r.finerr                 \* a unit containing a value that has no valid response form must fail
      [] r.t = "unitok" -> ~r.finerr /\ r.text = <<49, 44, 34, 111, 107, 34, 44, 45, 50>>          \* 1,"ok",-2
      [] OTHER -> FALSE

Judge == IF RowOk(Rows[i]) THEN TRUE ELSE PrintT(<<"BAD", i>>)
=========================================================================
