----------------------------- MODULE ScpiLex -----------------------------
(* IEEE 488.2 section 7: decomposition of a program message into syntactic  *)
(* elements (property C04; supplies behaviours to C01).                     *)
(*                                                                          *)
(* Decompose(inp) classifies every byte string three ways (DESIGN 2.4-2):   *)
(*   W  well-formed by the part of 488.2 section 7 this specification is    *)
(*      certain of; `els' is THE decomposition: mnemonics, `:' `?' `;' `,'  *)
(*      and typed data elements with the exact byte range of their payload  *)
(*      (header separators -- white space -- carry no information and are   *)
(*      not elements);                                                      *)
(*   M  contains an element that violates its syntax in one of the ways the *)
(*      property lists (kind says which): must be rejected with a command   *)
(*      error;                                                              *)
(*   U  unspecified: nothing is demanded beyond totality (C01).             *)
(* The scan is left to right; the verdict is that of the first point where  *)
(* the input stops being well-formed.                                       *)
EXTENDS Bytes, Integers

(* ---------------- byte classes of 488.2 7.4 ---------------- *)
IsWs(c)      == c \in {32, 9, 13, 12}           \* SP, TAB, CR, FF: white space for 488.2 AND for the library; the other
                                                \* control bytes (488.2 counts 00-08, 0B, 0E-1F too) stay unspecified
IsMnemCh(c)  == IsAlnum(c) \/ c = 95
IsSufCh(c)   == IsAlnum(c) \/ c = 45 \/ c = 47 \/ c = 46
NL == 10

El(t, a, n, a2, n2, v) == [t |-> t, a |-> a, n |-> n, a2 |-> a2, n2 |-> n2, v |-> v]
Sep(t, a)   == El(t, a, 1, 0, 0, <<>>)
W(els)      == [v |-> "W", kind |-> "", els |-> els]
M(kind)     == [v |-> "M", kind |-> kind, els |-> <<>>]
Unspec(why) == [v |-> "U", kind |-> why, els |-> <<>>]

(* decimal digit sequences (most significant first, zero = <<>>) for non-decimal values *)
RECURSIVE MulAdd(_, _, _)
MulAdd(d, m, carry) ==      \* d * m + carry, for small m and carry
    IF d = <<>> THEN (IF carry = 0 THEN <<>> ELSE MulAdd(<<>>, m, carry \div 10) \o <<carry % 10>>)
    ELSE LET x == d[Len(d)] * m + carry IN MulAdd(SubSeq(d, 1, Len(d) - 1), m, x \div 10) \o <<x % 10>>
DigVal(c) == IF IsDigit(c) THEN c - 48 ELSE Lower(c) - 87
IsRadixDig(c, r) == (IsDigit(c) \/ IsAlpha(c)) /\ DigVal(c) < r
RECURSIVE RadixVal(_, _, _, _, _)
RadixVal(inp, k, e, r, acc) == IF k >= e THEN acc ELSE RadixVal(inp, k + 1, e, r, MulAdd(acc, r, DigVal(inp[k])))
TwoTo64 == <<1, 8, 4, 4, 6, 7, 4, 4, 0, 7, 3, 7, 0, 9, 5, 5, 1, 6, 1, 6>>
RECURSIVE LexLessFrom(_, _, _)
LexLessFrom(a, b, i) == IF i > Len(a) THEN FALSE ELSE IF a[i] # b[i] THEN a[i] < b[i] ELSE LexLessFrom(a, b, i + 1)
LexLess(a, b) == LexLessFrom(a, b, 1)              \* a < b for digit sequences of EQUAL length

(* ---------------- the scanner ---------------- *)
(* all operators take the input `s' and a position k (1-based); n = Len(s) *)
At(s, k) == IF k <= Len(s) THEN s[k] ELSE -1

(* end of the maximal run, starting at k, of bytes in class cls *)
InClass(c, cls) == CASE cls = "ws"  -> IsWs(c)
                     [] cls = "mn"  -> IsMnemCh(c)
                     [] cls = "dg"  -> IsDigit(c)
                     [] cls = "sf"  -> IsSufCh(c)
                     [] cls = "r16" -> IsRadixDig(c, 16)
                     [] cls = "r8"  -> IsRadixDig(c, 8)
                     [] cls = "r2"  -> IsRadixDig(c, 2)
RECURSIVE RunEnd(_, _, _)
RunEnd(s, k, cls) == IF k <= Len(s) /\ InClass(s[k], cls) THEN RunEnd(s, k + 1, cls) ELSE k
SkipWs(s, k) == RunEnd(s, k, "ws")

RECURSIVE StrEnd(_, _, _)
(* position of the closing quote q of a string whose content starts at k; 0 = unterminated,
   -1 = non-ASCII byte inside *)
StrEnd(s, k, q) ==
    IF k > Len(s) THEN 0
    ELSE IF ~IsAscii(s[k]) THEN -1
    ELSE IF s[k] = q THEN (IF At(s, k + 1) = q THEN StrEnd(s, k + 2, q) ELSE k)
    ELSE StrEnd(s, k + 1, q)

RECURSIVE ExprEnd(_, _)
(* position of `)' closing an expression whose content starts at k; 0 = none, -1 = non-ASCII,
   -2 = a byte 488.2 excludes from expressions *)
ExprEnd(s, k) ==
    IF k > Len(s) THEN 0
    ELSE IF s[k] = 41 THEN k
    ELSE IF ~IsAscii(s[k]) THEN -1
    ELSE IF s[k] \in {34, 39, 59, 40, 35} THEN -2
    ELSE ExprEnd(s, k + 1)

AllDigits(s, a, b) == \A j \in a..b : IsDigit(s[j])
RECURSIVE DecVal(_, _, _, _)
DecVal(s, a, b, acc) == IF a > b THEN acc ELSE DecVal(s, a + 1, b, acc * 10 + (s[a] - 48))

(* zeros (and the point) before the first non-zero mantissa digit; digits of the exponent beyond 32000 *)
RECURSIVE LeadZeros(_, _, _)
LeadZeros(s, a, b) == IF a >= b THEN 0 ELSE IF s[a] = 48 THEN 1 + LeadZeros(s, a + 1, b) ELSE IF s[a] = 46 THEN LeadZeros(s, a + 1, b) ELSE 0
RECURSIVE ExpVal(_, _, _, _)
ExpVal(s, a, b, acc) == IF a >= b \/ acc > 32000 THEN acc ELSE ExpVal(s, a + 1, b, acc * 10 + (s[a] - 48))
ExpBeyond(s, a, b) == ExpVal(s, a, b, 0) > 32000

(* One data element starting at k.  Result [r, next]: r = W(<<el>>) / M / U, next = position after it *)
Datum(s, k) ==
    LET c == At(s, k)  n == Len(s) IN
    IF IsAlpha(c) THEN
        LET e == RunEnd(s, k, "mn") IN
        IF e - k > 12 THEN [r |-> M("chardata-too-long"), next |-> e]
        ELSE [r |-> W(<<El("chr", k, e - k, 0, 0, <<>>)>>), next |-> e]
    ELSE IF IsDigit(c) \/ c \in {43, 45, 46} THEN
        LET k1 == IF c \in {43, 45} THEN k + 1 ELSE k
            i  == RunEnd(s, k1, "dg")
            f  == IF At(s, i) = 46 THEN RunEnd(s, i + 1, "dg") ELSE i
            md == (i - k1) + (IF f > i THEN f - i - 1 ELSE 0)          \* mantissa digits
        IN IF md = 0 THEN [r |-> Unspec("number-without-digits"), next |-> f]
           ELSE
           LET x  == At(s, f)
               xs == IF At(s, f + 1) \in {43, 45} THEN f + 2 ELSE f + 1
               xe == RunEnd(s, xs, "dg")
               hasExp == x \in {69, 101} /\ xe > xs
               ne == IF hasExp THEN xe ELSE f                            \* end of the NRf
               w  == SkipWs(s, ne)
               y  == At(s, w)
               \* IEEE 488.2 7.7.2.4.1 lets a device refuse a mantissa of more than 255 digits (leading zeros not counted) and an
               \* exponent beyond +-32000: whether such an element lexes is left open here (the conversions have their own say, C07/C08)
               lead == LeadZeros(s, k1, f)
               big  == (md - lead > 255) \/ (hasExp /\ ExpBeyond(s, xs, xe))
           IN IF big THEN [r |-> Unspec("numeric-beyond-488.2-size-limits"), next |-> ne]
              ELSE IF x \in {69, 101} /\ ~hasExp THEN [r |-> Unspec("E-without-exponent-digits"), next |-> f]
              ELSE IF ~hasExp /\ w > ne /\ y \in {69, 101}
                      /\ (LET z == SkipWs(s, w + 1) IN IsDigit(At(s, z)) \/ At(s, z) \in {43, 45})
                   THEN [r |-> Unspec("white-space-before-exponent"), next |-> w]
              ELSE IF IsAlpha(y) \/ y = 47 THEN
                   LET se == RunEnd(s, w, "sf") IN
                   IF se - w > 12 THEN [r |-> M("suffix-too-long"), next |-> se]
                   ELSE [r |-> W(<<El("numsuf", k, ne - k, w, se - w, <<>>)>>), next |-> se]
              ELSE [r |-> W(<<El("num", k, ne - k, 0, 0, <<>>)>>), next |-> ne]
    ELSE IF c = 35 THEN                                                   \* '#'
        LET d == At(s, k + 1) IN
        IF d = -1 THEN [r |-> M("block-truncated"), next |-> k + 1]
        ELSE IF d = 48 THEN                                               \* indefinite block: up to the final NL
            IF n >= k + 2 /\ s[n] = NL THEN [r |-> W(<<El("blk", k + 2, n - (k + 2), 0, 0, <<>>)>>), next |-> n + 1]
            ELSE [r |-> M("indefinite-block-without-NL"), next |-> n + 1]
        ELSE IF IsDigit(d) THEN
            LET nd == d - 48 IN
            IF k + 1 + nd > n THEN [r |-> M("block-length-truncated"), next |-> n + 1]
            ELSE IF ~AllDigits(s, k + 2, k + 1 + nd) THEN [r |-> M("block-length-not-digits"), next |-> k + 2]
            ELSE LET len == DecVal(s, k + 2, k + 1 + nd, 0)  p == k + 2 + nd IN
                 IF p + len - 1 > n THEN [r |-> M("block-payload-truncated"), next |-> n + 1]
                 ELSE [r |-> W(<<El("blk", p, len, 0, 0, <<>>)>>), next |-> p + len]
        ELSE IF Upper(d) \in {72, 81, 66} THEN                            \* H Q B
            LET r == CASE Upper(d) = 72 -> 16 [] Upper(d) = 81 -> 8 [] OTHER -> 2
                e == RunEnd(s, k + 2, CASE r = 16 -> "r16" [] r = 8 -> "r8" [] OTHER -> "r2")
            IN IF e = k + 2 THEN [r |-> M("nondecimal-without-digits"), next |-> e]
               ELSE IF e - (k + 2) > 600 THEN [r |-> Unspec("nondecimal-size-limit"), next |-> e]
               ELSE LET v == RadixVal(s, k + 2, e, r, <<>>) IN                     \* value as decimal digits
                    IF Len(v) > 20 \/ (Len(v) = 20 /\ ~LexLess(v, TwoTo64)) THEN [r |-> Unspec("nondecimal-size-limit"), next |-> e]   \* needs more than 64 bits
                    ELSE [r |-> W(<<El("hex", k, 0, 0, 0, v)>>), next |-> e]
        ELSE [r |-> M("block-malformed"), next |-> k + 1]
    ELSE IF c = 34 \/ c = 39 THEN
        LET e == StrEnd(s, k + 1, c) IN
        IF e = 0 THEN [r |-> M("string-unterminated"), next |-> n + 1]
        ELSE IF e = -1 THEN [r |-> M("non-ascii"), next |-> n + 1]
        ELSE [r |-> W(<<El("str", k + 1, e - k - 1, 0, 0, <<>>)>>), next |-> e + 1]
    ELSE IF c = 40 THEN
        LET e == ExprEnd(s, k + 1) IN
        IF e = -1 THEN [r |-> M("non-ascii"), next |-> n + 1]
        ELSE IF e <= 0 THEN [r |-> Unspec("expression"), next |-> n + 1]
        ELSE [r |-> W(<<El("expr", k + 1, e - k - 1, 0, 0, <<>>)>>), next |-> e + 1]
    ELSE IF c = 58 THEN [r |-> M("colon-in-data"), next |-> k + 1]
    ELSE IF c >= 128 THEN [r |-> M("non-ascii"), next |-> k + 1]
    ELSE [r |-> Unspec("byte-cannot-start-data"), next |-> k + 1]

RECURSIVE Units(_, _, _, _), Header(_, _, _, _), Data(_, _, _, _), After(_, _, _)

(* after a datum (or after a header with no data): optional white space, then `,' `;' NL or end *)
After(s, k, els) ==
    LET w == SkipWs(s, k)  c == At(s, w) IN
    IF c = -1 THEN W(els)
    ELSE IF c = NL THEN (IF w = Len(s) THEN W(els) ELSE Unspec("NL-followed-by-more"))
    ELSE IF c = 59 THEN Units(s, SkipWs(s, w + 1), Append(els, Sep(";", w)), FALSE)
    ELSE IF c = 44 THEN Data(s, SkipWs(s, w + 1), Append(els, Sep(",", w)), FALSE)
    ELSE IF c = 58 THEN M("colon-in-data")
    ELSE IF c >= 128 THEN M("non-ascii")
    ELSE M("missing-separator-after-datum")

(* data region; first = TRUE right after the header separator *)
Data(s, k, els, first) ==
    LET c == At(s, k) IN
    IF c = NL /\ k < Len(s) THEN Unspec("NL-followed-by-more")
    ELSE IF c = -1 \/ c = NL \/ c = 59 THEN
        (IF first THEN After(s, k, els) ELSE M("comma-trailing"))
    ELSE IF c = 44 THEN M(IF first THEN "comma-leading" ELSE "comma-doubled")
    ELSE LET d == Datum(s, k) IN
         IF d.r.v # "W" THEN d.r
         ELSE IF d.r.els[1].t = "blk" /\ d.next = Len(s) + 1 /\ At(s, k + 1) = 48 THEN W(els \o d.r.els)  \* indefinite block ends the message
         ELSE After(s, d.next, els \o d.r.els)

(* a header starting at k (after an optional leading colon has been consumed when colon = TRUE) *)
Header(s, k, els, common) ==
    LET e   == RunEnd(s, k, "mn")
        len == e - k
        c   == At(s, e)
    IN IF len > (IF common THEN 11 ELSE 12)
       THEN (IF common /\ len = 12 THEN Unspec("common-mnemonic-of-12") ELSE M("mnemonic-too-long"))
       ELSE
       LET els1 == Append(els, El("mnem", IF common THEN k - 1 ELSE k, IF common THEN len + 1 ELSE len, 0, 0, <<>>)) IN
       IF c = 58 THEN
            (IF common THEN M("colon-after-common-header")
             ELSE IF IsAlpha(At(s, e + 1)) THEN Header(s, e + 1, Append(els1, Sep(":", e)), FALSE)
             ELSE M("colon-misplaced"))
       ELSE IF c = 63 THEN
            LET d == At(s, e + 1)  els2 == Append(els1, Sep("?", e)) IN
            IF IsWs(d) THEN Data(s, SkipWs(s, e + 1), els2, TRUE)
            ELSE IF d = -1 \/ d = NL \/ d = 59 THEN After(s, e + 1, els2)
            ELSE IF d >= 128 THEN M("non-ascii")
            ELSE Unspec("byte-glued-to-query")
       ELSE IF IsWs(c) THEN Data(s, SkipWs(s, e), els1, TRUE)
       ELSE IF c = -1 \/ c = NL \/ c = 59 THEN After(s, e, els1)
       ELSE IF c = 44 THEN M("comma-in-header")
       ELSE IF c >= 128 THEN M("non-ascii")
       ELSE Unspec("byte-glued-to-header")

(* start of a message unit at k; first = TRUE at the very start of the message *)
Units(s, k, els, first) ==
    LET c == At(s, k) IN
    IF c = -1 THEN W(els)                                   \* empty message, or message ending in `;'
    ELSE IF c = NL THEN (IF k = Len(s) THEN W(els) ELSE Unspec("NL-followed-by-more"))
    ELSE IF first /\ IsWs(c) THEN Unspec("leading-white-space")
    ELSE IF c = 59 THEN Unspec("empty-unit")
    ELSE IF c = 42 THEN (IF IsAlpha(At(s, k + 1)) THEN Header(s, k + 1, els, TRUE) ELSE Unspec("lone-star"))
    ELSE IF c = 58 THEN (IF IsAlpha(At(s, k + 1)) THEN Header(s, k + 1, Append(els, Sep(":", k)), FALSE)
                         ELSE M("colon-misplaced"))
    ELSE IF IsAlpha(c) THEN Header(s, k, els, FALSE)
    ELSE IF c = 44 THEN M("comma-in-header")
    ELSE IF c >= 128 THEN M("non-ascii")
    ELSE Unspec("byte-cannot-start-header")

Decompose(s) == Units(s, 1, <<>>, TRUE)
=========================================================================
