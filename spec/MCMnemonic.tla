--------------------------- MODULE MCMnemonic ---------------------------
(* C03, binding A1: TLC enumerates every candidate string up to MaxLen over *)
(* Alphabet and prints, per candidate, the expected Compare / Matches       *)
(* verdict against every definition in Defs; the harness evaluates the real *)
(* mnemonic_compare / mnemonic_match / Token::match_program_header.         *)
(* Also checks the step-wise scan twin equals the declarative Compare.      *)
EXTENDS Mnemonic, Integers, TLC, Json

CONSTANTS Alphabet, MaxLen, Defs     \* Defs: sequence of definitions (byte sequences)

VARIABLE cand
Init == cand = <<>>
Next == Len(cand) < MaxLen /\ \E c \in Alphabet : cand' = Append(cand, c)
Spec == Init /\ [][Next]_cand

B(b) == IF b THEN 1 ELSE 0

(* cmp = -1: keyword comparison is undefined for mnemonics with a numeric suffix *)

Emit == PrintT(ToJson([cand |-> cand,
                       cmp |-> [k \in 1..Len(Defs) |-> IF Split(Defs[k]).suf = <<>> THEN B(Compare(Defs[k], cand)) ELSE -1],
                       mat |-> [k \in 1..Len(Defs) |-> B(Matches(Defs[k], cand))]]))

(* design-level: the lock-step scan with the optional latch decides exactly Compare for
   definitions of SCPI shape *)
TwinOK == \A k \in 1..Len(Defs) :
             LET a == Split(Defs[k]).alpha IN ScanCompare(a, cand) = Compare(a, cand)
=========================================================================
