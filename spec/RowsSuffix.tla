--------------------------- MODULE RowsSuffix ---------------------------
(* Row validation (binding B2) for C18: unit-suffix conversions observed on *)
(* the real uom quantity types, judged by Suffix.tla.                       *)
(*  t="unit" q w kind lit suf upok obs     t="amp" ...     t="db" ...       *)
EXTENDS Suffix, SuffixCore, TLC, Json, IOUtils

Rows == ndJsonDeserialize(IOEnv.ROWS)
N == Len(Rows)
VARIABLE i
Init == i = 1
Next == \E j \in {2 * i, 2 * i + 1} : j <= N /\ i' = j
Spec == Init /\ [][Next]_i

Dec(j) == [nan |-> j.nan, neg |-> j.neg /\ j.d # <<>>, d |-> j.d, e |-> IF j.d = <<>> THEN 0 ELSE j.e]
Obs(o) == [k |-> o.k, code |-> o.code, cls |-> o.cls, v |-> Dec(o.v), num |-> Dec(o.num)]

RowOk(r) ==
    LET o == Obs(r.obs) IN
    IF r.kind \notin {"num", "numsuf"} THEN Rejected(o)                   \* a non-numeric element is rejected
    ELSE /\ ((o.k = "ok") <=> r.upok)                                       \* matching ignores letter case
         /\ (<<r.t, r.q, UpperSeq(r.suf)>> \in CoreSuffixes => o.k = "ok")   \* a defined suffix keeps converting
         /\ CASE r.t = "unit" -> UnitOk(r.q, r.lit, r.suf, o)
              [] r.t = "amp"  -> AmpOk(r.q, r.lit, r.suf, o)
              [] r.t = "db"   -> DbOk(r.q, r.lit, r.suf, o)

Judge == IF RowOk(Rows[i]) THEN TRUE ELSE PrintT(<<"BAD", i>>)
=========================================================================
