----------------------------- MODULE ScpiRun -----------------------------
(* The whole pipeline for one program message given as BYTES: lexical       *)
(* decomposition (ScpiLex), grouping of the elements into message units,    *)
(* header resolution (ScpiTree) and execution (ScpiExec).  Binds C04 to     *)
(* C02 / C05 / C06 / C10 on arbitrary well-formed strings instead of        *)
(* template-rendered messages.                                              *)
EXTENDS ScpiLex, ScpiExec

IsDataKind(t) == t \in {"chr", "num", "numsuf", "hex", "str", "blk", "expr"}
Slice(inp, a, n) == SubSeq(inp, a, a + n - 1)
AsciiDigits(v) == IF v = <<>> THEN <<48>> ELSE [k \in 1..Len(v) |-> v[k] + 48]

(* the datum record ScpiExec hands to a handler, recovered from an element of the decomposition *)
DatumOf(inp, e) ==
    [text |-> <<>>, kind |-> e.t,
     p1 |-> IF e.t = "hex" THEN AsciiDigits(e.v) ELSE Slice(inp, e.a, e.n),
     p2 |-> IF e.t = "numsuf" THEN Slice(inp, e.a2, e.n2) ELSE <<>>]

(* handler used for arbitrary messages: takes every parameter it is offered, answers `1' to a query *)
PullAll(query) == [pulls |-> [k \in 1..8 |-> "opt"], res |-> [code |-> 0, ext |-> 0], hdr |-> <<>>,
                   items |-> IF query THEN <<<<49>>>> ELSE <<>>, partial |-> FALSE]

EmptyUnit == [lead |-> 0, path |-> <<>>, query |-> FALSE, data |-> <<>>, lex |-> "ok", raw |-> <<>>, h |-> PullAll(FALSE)]
Close(u) == [u EXCEPT !.h = PullAll(u.query)]

RECURSIVE Group(_, _, _, _, _)
Group(inp, els, k, cur, acc) ==
    IF k > Len(els) THEN (IF cur.path = <<>> THEN acc ELSE Append(acc, Close(cur)))
    ELSE LET e == els[k] IN
         IF e.t = ";" THEN Group(inp, els, k + 1, EmptyUnit, IF cur.path = <<>> THEN acc ELSE Append(acc, Close(cur)))
         ELSE IF e.t = ":" THEN Group(inp, els, k + 1, IF cur.path = <<>> THEN [cur EXCEPT !.lead = 1] ELSE cur, acc)
         ELSE IF e.t = "mnem" THEN Group(inp, els, k + 1, [cur EXCEPT !.path = Append(@, Slice(inp, e.a, e.n))], acc)
         ELSE IF e.t = "?" THEN Group(inp, els, k + 1, [cur EXCEPT !.query = TRUE], acc)
         ELSE IF e.t = "," THEN Group(inp, els, k + 1, cur, acc)
         ELSE Group(inp, els, k + 1, [cur EXCEPT !.data = Append(@, DatumOf(inp, e))], acc)

UnitsOfBytes(inp) == LET d == Decompose(inp) IN Group(inp, d.els, 1, EmptyUnit, <<>>)

(* expected execution of a well-formed message on the tree, growable buffer *)
RunBytes(inp) == Run(-1, UnitsOfBytes(inp))
=========================================================================
