--------------------------- MODULE RowsNumeric ---------------------------
(* Row validation (binding B2) for C07, C08 and C17: conversions observed   *)
(* on the real code, judged by Numeric.tla.  Row shapes (all fields always  *)
(* present):                                                                *)
(*  t="int"  ty kind lit val obs        integer target (C07)                *)
(*  t="bool" kind lit obs               boolean (C08)                       *)
(*  t="flt"  w kind lit obs             f32 / f64 (C08)                     *)
(*  t="acc"  target kind utf8ok obs     accept matrix of the byte-ish targets (C08) *)
(*  t="nv"   kind lit variant tv min max hasdef def final    <numeric_value> (C17) *)
EXTENDS Numeric, TLC, Json, IOUtils

Rows == ndJsonDeserialize(IOEnv.ROWS)
N == Len(Rows)
VARIABLE i
Init == i = 1
Next == \E j \in {2 * i, 2 * i + 1} : j <= N /\ i' = j
Spec == Init /\ [][Next]_i

Dec(j) == [nan |-> j.nan, neg |-> j.neg /\ j.d # <<>>, d |-> j.d, e |-> IF j.d = <<>> THEN 0 ELSE j.e]
Fin(f) == IF f.k = "ok" THEN [k |-> "ok", v |-> Dec(f.v)] ELSE [k |-> "err", code |-> f.code]

NvOk(r) ==
    LET kw == IF r.kind = "chr" THEN NvKeyword(r.lit) ELSE "none"
        min == Dec(r.min)  max == Dec(r.max)  f == Fin(r.final) IN
    /\ (kw # "none" => r.variant = kw)                       \* keywords exactly in short and long form
    /\ (kw = "none" => LET u == Fin(r.under) IN              \* otherwise converts as the underlying type
                       IF u.k = "ok" THEN r.variant = "value" /\ SameVal(Dec(r.tv), u.v)
                       ELSE r.variant = "err" /\ f.k = "err" /\ f.code = u.code)
    /\ (r.variant = "err" => Rejected(f))
    /\ (r.variant # "err" => NvResolveOk(r.variant, Dec(r.tv), min, max, r.hasdef, Dec(r.def), f))
    /\ (f.k = "ok" => (~IsNan(f.v) /\ DCmp(min, f.v) <= 0 /\ DCmp(f.v, max) <= 0))   \* never leaves [min, max]

(* a decimal literal the LEXER refused: allowed (with a command error) only beyond the 488.2 size limits *)
LexRefusedOk(r) == r.via = "lexer" /\ r.kind = "num" /\ Beyond4882(r.lit) /\ IsCmdErr(r.obs)
RowOk(r) ==
    CASE r.t = "int"  -> LexRefusedOk(r) \/ IntOk(r.ty, r.kind, r.lit, r.val, r.obs)
      [] r.t = "bool" -> LexRefusedOk(r) \/ BoolOk(r.kind, r.lit, r.obs)
      [] r.t = "flt"  -> LexRefusedOk(r) \/ FloatOk(r.kind, r.lit, r.obs)
      [] r.t = "acc"  -> AcceptOk(r.target, r.kind, r.utf8ok, r.obs)
      [] r.t = "nv"   -> NvOk(r)
      [] OTHER -> FALSE

Judge == IF RowOk(Rows[i]) THEN TRUE ELSE PrintT(<<"BAD", i>>)
=========================================================================
