--------------------------- MODULE RowsErrClass ---------------------------
(* Row validation (binding B2) for C14.  The harness emits one row per       *)
(* 16-bit error number with what the library reports for it, plus one row    *)
(* per directed faulty message with the error the library raised; TLC judges *)
(* every row against ErrClass.                                               *)
(*  {"t":"code","code":c,"mask":m,"emask":m2,"found":b,"lcode":c2}           *)
(*  {"t":"fault","kind":k,"code":c,"input":"..."}                            *)
EXTENDS ErrClass, ErrCodesCore, Naturals, Sequences, TLC, Json, IOUtils

Rows == ndJsonDeserialize(IOEnv.ROWS)
N == Len(Rows)

VARIABLE i
Init == i = 1
Next == \E j \in {2 * i, 2 * i + 1} : j <= N /\ i' = j      \* binary fan-out: parallel over workers
Spec == Init /\ [][Next]_i

KindOk(k, c) ==
    CASE k \in {"syntax", "header", "type"} -> IsCommandErr(c)
      [] k \in {"range", "value", "buffer"} -> IsExecutionErr(c)
      [] OTHER -> FALSE

RowOk(r) ==
    CASE r.t = "code"  -> /\ r.mask = EsrMask(r.code)          \* ErrorCode::esr_mask
                          /\ r.emask = EsrMask(r.code)         \* Error::esr_mask
                          /\ (r.found => r.lcode = r.code)     \* lookup reports the same code
                          /\ (r.code \in StandardCodes => r.found) \* and every standard number is found (0 = No error included)
      [] r.t = "fault" -> KindOk(r.kind, r.code)
      [] OTHER -> FALSE

Judge == IF RowOk(Rows[i]) THEN TRUE ELSE PrintT(<<"BAD", i>>)
=========================================================================
