------------------------------ MODULE MCLex ------------------------------
(* Bounded-exhaustive generation of byte strings for ScpiLex (C04 and the   *)
(* input half of C01; binding A1).                                          *)
(*  mode "enum":    every concatenation of <= MaxLen symbols of Alphabet    *)
(*                  (single bytes, one per lexical class, and a few chunks) *)
(*                  after the fixed Prefix;                                 *)
(*  mode "corrupt": every single-point corruption (delete / insert /        *)
(*                  replace by one representative byte) and every proper    *)
(*                  prefix (truncation) of each base message.               *)
(*  mode "list":    the given strings as they are (long / extreme inputs).   *)
(* Each generated string is printed with its W / M(kind) / U verdict and,   *)
(* for W, its decomposition.                                                *)
EXTENDS ScpiLex, TLC, Json

CONSTANTS Mode, Alphabet, MaxLen, Prefix, Bases, Reps

VARIABLES bytes, cnt
vars == <<bytes, cnt>>

Init == IF Mode = "enum" THEN bytes = <<>> /\ cnt = 0
        ELSE \E b \in Bases : bytes = b /\ cnt = 0

Extend == /\ Mode = "enum" /\ cnt < MaxLen
          /\ \E sym \in Alphabet : bytes' = bytes \o sym
          /\ cnt' = cnt + 1

Del(s, p)    == SubSeq(s, 1, p - 1) \o SubSeq(s, p + 1, Len(s))
Ins(s, p, c) == SubSeq(s, 1, p - 1) \o <<c>> \o SubSeq(s, p, Len(s))
Rep(s, p, c) == [s EXCEPT ![p] = c]

Corrupt == /\ Mode = "corrupt" /\ cnt = 0 /\ cnt' = 1
           /\ \/ \E p \in 1..Len(bytes) : bytes' = Del(bytes, p)
              \/ \E p \in 1..(Len(bytes) + 1), c \in Reps : bytes' = Ins(bytes, p, c)
              \/ \E p \in 1..Len(bytes), c \in Reps : c # bytes[p] /\ bytes' = Rep(bytes, p, c)
              \/ \E p \in 0..(Len(bytes) - 1) : bytes' = SubSeq(bytes, 1, p)

Next == Extend \/ Corrupt
Spec == Init /\ [][Next]_vars

Emit == LET s == Prefix \o bytes  d == Decompose(s) IN
        PrintT(ToJson([bytes |-> s, v |-> d.v, kind |-> d.kind, els |-> d.els]))

(* design-level: every element of a W decomposition lies inside the input, elements are in
   order and do not overlap; base messages of the corruption mode are well-formed *)
Shape == LET s == Prefix \o bytes  d == Decompose(s) IN
         d.v = "W" =>
           /\ \A i \in 1..Len(d.els) : d.els[i].a >= 1 /\ d.els[i].a + d.els[i].n - 1 <= Len(s)
           /\ \A i \in 1..(Len(d.els) - 1) : d.els[i].a + d.els[i].n <= d.els[i + 1].a
BasesWellFormed == (Mode = "corrupt" /\ cnt = 0) => Decompose(Prefix \o bytes).v = "W"
=========================================================================
