-------------------------- MODULE ErrQueueProof --------------------------
(* Unbounded argument for C12 (growth item): for EVERY capacity and every  *)
(* set of errors the queue never holds more than Cap entries and contains  *)
(* only pushed errors or the overflow marker.  Checked by TLAPS.           *)
EXTENDS ErrQueue, TLAPS

CONSTANTS Cap, Errs
ASSUME CapNat == Cap \in Nat

VARIABLE queue

Init == queue = <<>>
Push(e) == queue' = PushPost(queue, Cap, e)
Pop     == queue' = PopPost(queue)
Clear   == queue' = ClearPost(queue)
Next == (\E e \in Errs : Push(e)) \/ Pop \/ Clear
Spec == Init /\ [][Next]_queue

Inv == /\ queue \in Seq(Errs \cup {Overflow})
       /\ (Bounded(Cap) => Len(queue) <= Cap)

LEMMA InitInv == Init => Inv
  BY CapNat DEF Init, Inv, Bounded

LEMMA PushInv == ASSUME Inv, NEW e \in Errs, Push(e) PROVE Inv'
  <1>1. CASE Bounded(Cap) /\ Len(queue) >= Cap
    <2>1. queue' = [queue EXCEPT ![Len(queue)] = Overflow]
      BY <1>1 DEF Push, PushPost
    <2>2. Len(queue') = Len(queue) /\ queue' \in Seq(Errs \cup {Overflow})
      BY <2>1 DEF Inv
    <2> QED BY <2>2 DEF Inv
  <1>2. CASE ~(Bounded(Cap) /\ Len(queue) >= Cap)
    <2>1. queue' = Append(queue, e)
      BY <1>2 DEF Push, PushPost
    <2>2. Len(queue') = Len(queue) + 1 /\ queue' \in Seq(Errs \cup {Overflow})
      BY <2>1 DEF Inv
    <2> QED BY <1>2, <2>2, CapNat DEF Inv, Bounded
  <1> QED BY <1>1, <1>2

LEMMA PopInv == ASSUME Inv, Pop PROVE Inv'
  <1>1. CASE queue = <<>>
    BY <1>1 DEF Pop, PopPost, Inv
  <1>2. CASE queue # <<>>
    <2>1. queue' = Tail(queue)
      BY <1>2 DEF Pop, PopPost
    <2>2. Len(queue') = Len(queue) - 1 /\ queue' \in Seq(Errs \cup {Overflow})
      BY <1>2, <2>1 DEF Inv
    <2> QED BY <2>2, CapNat DEF Inv, Bounded
  <1> QED BY <1>1, <1>2

LEMMA ClearInv == ASSUME Inv, Clear PROVE Inv'
  BY CapNat DEF Clear, ClearPost, Inv, Bounded

THEOREM Safety == Spec => []Inv
  <1>1. Inv /\ [Next]_queue => Inv'
    BY PushInv, PopInv, ClearInv DEF Next, Inv
  <1> QED BY InitInv, <1>1, PTL DEF Spec
=========================================================================
