----------------------------- MODULE Decimal -----------------------------
(* Exact decimal arithmetic on digit sequences (TLC integers are 32-bit;   *)
(* the properties C07/C08/C09/C17/C18 quantify over 64-bit integers and    *)
(* literals with hundreds of digits).                                       *)
(*   natural   = sequence of digits 0..9, most significant first, zero = <<>>, no leading zeros *)
(*   signed    = [neg : BOOLEAN, d : natural]   (zero is never negative)    *)
(*   decimal   = [neg, d, e] meaning (-1)^neg * d * 10^e                    *)
EXTENDS Naturals, Integers, Sequences

RECURSIVE Strip(_)
Strip(d) == IF d # <<>> /\ d[1] = 0 THEN Strip(Tail(d)) ELSE d

Zeros(k) == [i \in 1..k |-> 0]
Shl(d, k) == IF d = <<>> \/ k <= 0 THEN d ELSE d \o Zeros(k)          \* d * 10^k

(* comparison of naturals: -1, 0, 1 *)
RECURSIVE CmpSame(_, _, _)
CmpSame(a, b, i) == IF i > Len(a) THEN 0
                    ELSE IF a[i] < b[i] THEN -1 ELSE IF a[i] > b[i] THEN 1 ELSE CmpSame(a, b, i + 1)
Cmp(a, b) == IF Len(a) < Len(b) THEN -1 ELSE IF Len(a) > Len(b) THEN 1 ELSE CmpSame(a, b, 1)

(* digit at position i counted from the least significant end (1 = units), 0 beyond the top *)
DigR(d, i) == IF i <= Len(d) THEN d[Len(d) - i + 1] ELSE 0
Max2(a, b) == IF a >= b THEN a ELSE b

RECURSIVE AddR(_, _, _, _, _)
AddR(a, b, i, carry, n) ==                 \* builds the sum least-significant digit last
    IF i > n THEN (IF carry = 0 THEN <<>> ELSE <<carry>>)
    ELSE LET x == DigR(a, i) + DigR(b, i) + carry IN AddR(a, b, i + 1, x \div 10, n) \o <<x % 10>>
Add(a, b) == Strip(AddR(a, b, 1, 0, Max2(Len(a), Len(b))))

RECURSIVE SubR(_, _, _, _, _)
SubR(a, b, i, borrow, n) ==                \* a >= b
    IF i > n THEN <<>>
    ELSE LET x == DigR(a, i) - DigR(b, i) - borrow IN
         IF x < 0 THEN SubR(a, b, i + 1, 1, n) \o <<x + 10>> ELSE SubR(a, b, i + 1, 0, n) \o <<x>>
Sub(a, b) == Strip(SubR(a, b, 1, 0, Len(a)))
AbsDiff(a, b) == IF Cmp(a, b) >= 0 THEN Sub(a, b) ELSE Sub(b, a)

RECURSIVE MulR(_, _, _, _)
MulR(a, m, i, carry) ==                    \* a * m for a small natural m
    IF i > Len(a) THEN (IF carry = 0 THEN <<>> ELSE MulR(<<>>, m, 1, carry \div 10) \o <<carry % 10>>)
    ELSE LET x == DigR(a, i) * m + carry IN MulR(a, m, i + 1, x \div 10) \o <<x % 10>>
MulSmall(a, m) == IF m = 0 THEN <<>> ELSE Strip(MulR(a, m, 1, 0))

(* halving and the odd part (for "is this integer exactly a double?") *)
RECURSIVE HalveR(_, _, _)
HalveR(d, i, rem) == IF i > Len(d) THEN <<>>
                     ELSE LET x == rem * 10 + d[i] IN <<x \div 2>> \o HalveR(d, i + 1, x % 2)
Halve(d) == Strip(HalveR(d, 1, 0))                                        \* floor(d / 2)
IsEven(d) == d = <<>> \/ d[Len(d)] % 2 = 0
RECURSIVE OddPart(_)
OddPart(d) == IF d = <<>> \/ ~IsEven(d) THEN d ELSE OddPart(Halve(d))

(* ---------------- signed ---------------- *)
S(neg, d) == [neg |-> neg /\ d # <<>>, d |-> d]
SNeg(a) == S(~a.neg, a.d)
SAdd(a, b) == IF a.neg = b.neg THEN S(a.neg, Add(a.d, b.d))
              ELSE IF Cmp(a.d, b.d) >= 0 THEN S(a.neg, Sub(a.d, b.d)) ELSE S(b.neg, Sub(b.d, a.d))
SSub(a, b) == SAdd(a, SNeg(b))
SCmp(a, b) == IF a.neg /\ ~b.neg THEN -1 ELSE IF ~a.neg /\ b.neg THEN 1
              ELSE IF a.neg THEN Cmp(b.d, a.d) ELSE Cmp(a.d, b.d)
SLe(a, b) == SCmp(a, b) <= 0

(* ---------------- digits from bytes ---------------- *)
DigitsOf(bytes) == Strip([i \in 1..Len(bytes) |-> bytes[i] - 48])      \* ASCII digits -> natural

RECURSIVE NatOfInt(_)
NatOfInt(n) == IF n = 0 THEN <<>> ELSE NatOfInt(n \div 10) \o <<n % 10>>   \* small TLC integer -> natural
SOfInt(n) == IF n < 0 THEN S(TRUE, NatOfInt(-n)) ELSE S(FALSE, NatOfInt(n))

(* ---------------- NRf literal -> exact decimal ---------------- *)
(* bytes: [+-] digits [. digits] [E [+-] digits]  |  [+-] . digits [E ...]   (as accepted by ScpiLex) *)
RECURSIVE FindByte(_, _, _)
FindByte(s, k, set) == IF k > Len(s) THEN 0 ELSE IF s[k] \in set THEN k ELSE FindByte(s, k + 1, set)
RECURSIVE SmallVal(_, _, _, _)
SmallVal(s, a, b, acc) == IF a > b THEN acc ELSE SmallVal(s, a + 1, b, IF acc > 100000 THEN acc ELSE acc * 10 + (s[a] - 48))

ParseNRf(s) ==
    LET neg  == s[1] = 45
        st   == IF s[1] \in {43, 45} THEN 2 ELSE 1
        ePos == FindByte(s, st, {69, 101})
        mEnd == IF ePos = 0 THEN Len(s) ELSE ePos - 1
        dot  == LET p == FindByte(s, st, {46}) IN IF p = 0 \/ p > mEnd THEN 0 ELSE p
        ip   == IF dot = 0 THEN SubSeq(s, st, mEnd) ELSE SubSeq(s, st, dot - 1)
        fp   == IF dot = 0 THEN <<>> ELSE SubSeq(s, dot + 1, mEnd)
        xneg == ePos # 0 /\ s[ePos + 1] = 45
        xst  == IF ePos = 0 THEN 0 ELSE IF s[ePos + 1] \in {43, 45} THEN ePos + 2 ELSE ePos + 1
        x    == IF ePos = 0 THEN 0 ELSE SmallVal(s, xst, Len(s), 0)       \* saturates beyond 100000
        d    == DigitsOf(ip \o fp)
    IN [neg |-> neg /\ d # <<>>, d |-> d, e |-> (IF xneg THEN -x ELSE x) - Len(fp)]

(* number of decimal digits of the integer part of |v| (0 if |v| < 1) *)
IntDigits(v) == IF v.d = <<>> THEN 0 ELSE Max2(0, Len(v.d) + v.e)
=========================================================================
