----------------------------- MODULE MCLists -----------------------------
(* C19, binding A1: TLC enumerates every list of <= MaxLen entries over the *)
(* entry templates, with no corruption and with every applicable single     *)
(* corruption, and prints text + expected entries + error window.           *)
EXTENDS Lists, TLC, Json, Sequences

CONSTANTS Channel,     \* TRUE: channel list, FALSE: numeric list
          Entries,     \* set of entry templates (well-formed ones)
          MixedRanges, \* channel ranges whose ends differ in dimension (only used with "dimmix")
          MaxLen

VARIABLES es, corr
vars == <<es, corr>>

Init == es = <<>> /\ corr = NoCorr
AddEntry == /\ corr = NoCorr /\ Len(es) < MaxLen
            /\ \E e \in Entries : es' = Append(es, e)
            /\ corr' = corr
AddMixed == /\ Channel /\ corr = NoCorr /\ Len(es) < MaxLen
            /\ \E e \in MixedRanges : es' = Append(es, e) /\ corr' = [c |-> "dimmix", at |-> Len(es) + 1]
(* a dimension-mixed range may be followed by further well-formed entries *)
Extend == /\ corr.c = "dimmix" /\ Len(es) < MaxLen
          /\ \E e \in Entries : es' = Append(es, e) /\ corr' = corr
Corrupt == /\ corr = NoCorr /\ es # <<>>
           /\ \E c \in {"lead", "dbl", "foreign", "wsafter", "nosep", "third", "trail"}, at \in 1..Len(es) :
                 /\ Applicable(es, [c |-> c, at |-> at], Channel)
                 /\ (c = "trail" => at = 1)                       \* position-free: one instance per list
                 /\ corr' = [c |-> c, at |-> at] /\ es' = es
Next == AddEntry \/ AddMixed \/ Extend \/ Corrupt
Spec == Init /\ [][Next]_vars

Emit == IF es = <<>> THEN TRUE
        ELSE PrintT(ToJson([channel |-> Channel, text |-> Render(es, corr), entries |-> es,
                            corr |-> corr.c, win |-> ErrWindow(es, corr), either |-> corr.c = "trail"]))

(* design-level sanity: a corruption really changes the text, and the window is consistent *)
Sane == /\ (corr.c \notin {"none", "dimmix"} => Render(es, corr) # Render(es, NoCorr))
        /\ LET w == ErrWindow(es, corr) IN w.lo <= w.hi /\ w.hi <= Len(es) /\ (w.err <=> corr.c # "none")
=========================================================================
