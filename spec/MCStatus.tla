---------------------------- MODULE MCStatus ----------------------------
(* Bounded model-checking instance of ScpiStatus (C13, C15, C16).           *)
(* The constants select a projection of the full model (which registers,    *)
(* which bit positions / values, which commands); every projection reuses   *)
(* the step relation of ScpiStatus unchanged.  With Emit = TRUE every       *)
(* (state, command, outcome) edge is printed for replay on the real device  *)
(* (binding A2); alternatives of one command are separate edges.            *)
EXTENDS ScpiStatus, TLC, Json

CONSTANTS Ops0,      \* parameterless commands enabled, e.g. {"cls","esrq","stbq"}
          RegOps,    \* per-register queries enabled, subset of {"evq","condq","enabq","ptrq","ntrq"}
          RegWrites, \* per-register writes enabled, subset of {"enab","ptr","ntr","setcond"}
          Regs,      \* subset of {"OPER","QUES"}
          RegVals,   \* values written to register-set registers / conditions
          EseVals, SreVals, SreInitVals,   \* values written by *ESE / *SRE (SreInitVals only from the initial state)
          FailErrs,  \* handler-raised errors
          BadKinds,  \* genuinely invalid messages whose code the properties fix: subset of {"undef","p108","p109","range"}
          Mavs,      \* subset of BOOLEAN
          Cap, Tst, MaxQ, Emit

VARIABLES st,        \* device state
          lat        \* ghost: bits that made a filtered transition since the event register was last read/cleared

vars == <<st, lat>>
env == [cap |-> Cap, tst |-> Tst]

U(op, r, v, k, c, x) == [op |-> op, r |-> r, v |-> v, k |-> k, code |-> c, ext |-> x]

KindCode(k) == CASE k = "undef" -> -113 [] k = "p108" -> -108 [] k = "p109" -> -109 [] k = "range" -> -222

MsgUnits ==
    {U(op, "", 0, "", 0, 0) : op \in Ops0}
    \cup {U(op, r, 0, "", 0, 0) : op \in RegOps, r \in Regs}
    \cup {U(op, r, v, "", IF v \in 0..65535 THEN 0 ELSE -222, 0) : op \in RegWrites \ {"setcond"}, r \in Regs, v \in RegVals}
    \cup {U("ese", "", v, "", IF v \in 0..255 THEN 0 ELSE -222, 0) : v \in EseVals}
    \cup {U("sre", "", v, "", IF v \in 0..255 THEN 0 ELSE -222, 0) : v \in (IF st = InitState THEN SreInitVals ELSE SreVals)}
    \cup {U("fail", "", 0, "", e.code, e.ext) : e \in FailErrs}
    \cup {U("bad", "", 0, k, KindCode(k), 0) : k \in BadKinds}

DevUnits == {U(op, r, v, "", 0, 0) : op \in {"setcond", "setbits", "clrbits"}, r \in Regs, v \in (RegVals \cap 0..65535)}

EmitEdge(u, mav, ret, resps, post) ==
    IF Emit THEN PrintT(ToJson([pre |-> StJson(st), u |-> u, mav |-> mav, ret |-> ret,
                                resps |-> resps, post |-> StJson(post), cap |-> Cap, tst |-> Tst]))
    ELSE TRUE

(* ghost update: which bits of register r make a filtered transition in this device step *)
LatAfterDev(u) ==
    LET g == Reg(st, u.r)
        v == CASE u.op = "setcond" -> ToBits(u.v, 16)
               [] u.op = "setbits" -> g.cond \cup ToBits(u.v, 16)
               [] u.op = "clrbits" -> g.cond \ ToBits(u.v, 16)
        t == {b \in Bit16 : (b \in v /\ b \notin g.cond /\ b \in g.ptr) \/ (b \notin v /\ b \in g.cond /\ b \in g.ntr)}
    IN [lat EXCEPT ![u.r] = @ \cup t]

LatAfterMsg(u, ok) ==
    IF ~ok THEN lat
    ELSE IF u.op = "cls" THEN [r \in {"OPER", "QUES"} |-> {}]
    ELSE IF u.op = "evq" THEN [lat EXCEPT ![u.r] = {}]
    ELSE lat

Init == st = InitState /\ lat = [r \in {"OPER", "QUES"} |-> {}]

Message ==
    \E u \in MsgUnits, mav \in Mavs :
      \E o \in MsgOutcomes(st, env, <<u>>, mav) :
         /\ st' = o.st
         /\ lat' = LatAfterMsg(u, o.ret = NoErr)
         /\ EmitEdge(u, mav, o.ret, o.resps, o.st)

DeviceEvent ==
    ("setcond" \in RegWrites) /\
    \E u \in DevUnits :
         /\ st' = DevOutcome(st, u)
         /\ lat' = LatAfterDev(u)
         /\ EmitEdge(u, FALSE, NoErr, <<>>, st')

Next == Message \/ DeviceEvent
Spec == Init /\ [][Next]_vars

Bound == Len(st.queue) <= MaxQ

(* ---------------- design-level checks ---------------- *)
RegOK(g) == /\ g.cond \subseteq Bit16 /\ g.event \subseteq Bit16 /\ g.enable \subseteq Bit16
            /\ g.ptr \subseteq Bit16 /\ g.ntr \subseteq Bit16
TypeOK == /\ st.esr \subseteq Bit8 /\ st.ese \subseteq Bit8 /\ st.sre \subseteq Bit8
          /\ RegOK(st.oper) /\ RegOK(st.ques)

(* C15, declaratively: the event register holds exactly the bits that made a filtered
   transition since it was last read or cleared *)
LatchInv == st.oper.event = lat["OPER"] /\ st.ques.event = lat["QUES"]

(* C13: the queue grows by at most one entry per step, and the error bits 2..5 of the ESR
   only ever change through a failing message, *ESR? or *CLS *)
QueueStep == [][Len(st'.queue) <= Len(st.queue) + 1]_vars

(* C16: every allowed status byte has bit 6 iff some other reported bit is enabled, and
   never reports bits 0/1 *)
StbShape == \A mav \in BOOLEAN : \A x \in StbAllowed(st, mav) :
               LET b == ToBits(x, 8) IN
               /\ b \cap {0, 1} = {}
               /\ (6 \in b) <=> ((b \ {6}) \cap st.sre # {})
               /\ (2 \in b) <=> (st.queue # <<>>)
               /\ (4 \in b) <=> mav
               /\ (5 \in b) <=> (st.esr \cap st.ese # {})
=========================================================================
