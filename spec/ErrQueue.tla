---------------------------- MODULE ErrQueue ----------------------------
(* The SCPI error/event queue (SCPI-99 21.8, property C12).                *)
(*                                                                         *)
(* An error is a record [code, ext]: `code' is the 16-bit error/event      *)
(* number, `ext' identifies the optional device-dependent text (0 = none). *)
(* The queue is a bounded FIFO.  When a push does not fit, the newest      *)
(* retained slot is overwritten by -350 "Queue overflow" and the pushed    *)
(* error is dropped.  Cap = 0 encodes "unbounded" (the growable queue).    *)
(*                                                                         *)
(* Every operation is given as a pure operator (state, argument) ->        *)
(* outcome so that the model-checking spec (MCErrQueue), the trace spec    *)
(* (TraceErrQueue) and the status model (ScpiStatus) share one definition. *)
EXTENDS Naturals, Integers, Sequences

Overflow == [code |-> -350, ext |-> 0]
NoError  == [code |-> 0, ext |-> 0]

Bounded(cap) == cap > 0

(* push_back_error *)
PushPost(q, cap, e) ==
    IF Bounded(cap) /\ Len(q) >= cap
    THEN [q EXCEPT ![Len(q)] = Overflow]
    ELSE Append(q, e)

(* pop_front_error: response is the head (or "none"), post is the tail *)
PopResp(q) == IF q = <<>> THEN <<>> ELSE <<Head(q)>>     \* 0 or 1 element
PopPost(q) == IF q = <<>> THEN q ELSE Tail(q)

ClearPost(q) == <<>>
LenResp(q)   == Len(q)
EmptyResp(q) == q = <<>>

(* The operation vocabulary used by edges and traces *)
Ops == {"push", "pop", "clear", "len", "empty"}

(* Outcome of one operation: [resp, post].  resp is a sequence so that it   *)
(* has one JSON shape: <<>> (nothing), <<n>> or <<err>>.                     *)
Outcome(q, cap, op, arg) ==
    CASE op = "push"  -> [resp |-> <<>>,            post |-> PushPost(q, cap, arg)]
      [] op = "pop"   -> [resp |-> PopResp(q),      post |-> PopPost(q)]
      [] op = "clear" -> [resp |-> <<>>,            post |-> ClearPost(q)]
      [] op = "len"   -> [resp |-> <<LenResp(q)>>,  post |-> q]
      [] op = "empty" -> [resp |-> <<IF EmptyResp(q) THEN 1 ELSE 0>>, post |-> q]
=========================================================================
