//! C07 / C08 / C17: observation rows for typed conversions, judged by Numeric.tla.

use crate::util::*;
use scpi::error::Error;
use scpi::parser::tokenizer::{Token, Tokenizer};
use scpi::tree::prelude::{Arbitrary, Character, Expression};
use scpi_contrib::scpi1999::{NumericBuilder, NumericValue};
use serde_json::{json, Value};

// ------------------------------------------------------------------ tiny bignum (exact float expansions)
#[derive(Clone)]
pub struct Big(Vec<u32>); // base 1e9, little endian
impl Big {
    pub fn from_u128(mut v: u128) -> Self {
        let mut d = vec![];
        while v > 0 {
            d.push((v % 1_000_000_000) as u32);
            v /= 1_000_000_000;
        }
        Big(d)
    }
    pub fn mul_small(&mut self, m: u32) {
        let mut carry = 0u64;
        for x in self.0.iter_mut() {
            let t = *x as u64 * m as u64 + carry;
            *x = (t % 1_000_000_000) as u32;
            carry = t / 1_000_000_000;
        }
        while carry > 0 {
            self.0.push((carry % 1_000_000_000) as u32);
            carry /= 1_000_000_000;
        }
    }
    pub fn digits(&self) -> String {
        if self.0.is_empty() {
            return "0".into();
        }
        let mut s = format!("{}", self.0[self.0.len() - 1]);
        for x in self.0.iter().rev().skip(1) {
            s.push_str(&format!("{:09}", x));
        }
        s
    }
}

/// exact decimal text of m * 2^q
pub fn exact(m: u128, q: i32) -> String {
    let mut b = Big::from_u128(m);
    if q >= 0 {
        for _ in 0..q {
            b.mul_small(2);
        }
        b.digits()
    } else {
        for _ in 0..(-q) {
            b.mul_small(5);
        }
        let d = b.digits();
        let f = (-q) as usize;
        let d = if d.len() <= f { format!("{}{}", "0".repeat(f - d.len() + 1), d) } else { d };
        let (ip, fp) = d.split_at(d.len() - f);
        format!("{ip}.{fp}")
    }
}

/// (m, q, is_pow2_boundary) of a positive finite float given as (fraction bits, biased exponent, mantissa width, bias+mant)
fn decompose(frac: u64, exp: u32, mant: u32, bias: i32) -> (u128, i32, bool) {
    if exp == 0 {
        (frac as u128, 1 - bias - mant as i32, false)
    } else {
        (((1u64 << mant) | frac) as u128, exp as i32 - bias - mant as i32, frac == 0 && exp > 1)
    }
}

pub struct FInfo {
    pub cls: &'static str,
    pub neg: bool,
    pub lo: String,
    pub hi: String,
    pub even: bool,
}

fn finfo(bits: u64, mant: u32, expbits: u32) -> FInfo {
    let bias = (1i32 << (expbits - 1)) - 1;
    let neg = (bits >> (mant + expbits)) & 1 == 1;
    let exp = ((bits >> mant) & ((1 << expbits) - 1)) as u32;
    let frac = bits & ((1u64 << mant) - 1);
    let maxexp = (1u32 << expbits) - 1;
    if exp == maxexp {
        if frac != 0 {
            return FInfo { cls: "nan", neg, lo: "0".into(), hi: "0".into(), even: true };
        }
        // threshold between MAX and 2^emax: MAX = (2^(mant+1)-1) * 2^(maxexp-1-bias-mant)
        let (m, q, _) = decompose((1u64 << mant) - 1, maxexp - 1, mant, bias);
        return FInfo { cls: "inf", neg, lo: exact(2 * m + 1, q - 1), hi: "0".into(), even: true };
    }
    if exp == 0 && frac == 0 {
        let q = 1 - bias - mant as i32;
        return FInfo { cls: "zero", neg, lo: "0".into(), hi: exact(1, q - 1), even: true };
    }
    let (m, q, pow2) = decompose(frac, exp, mant, bias);
    let lo = if pow2 { exact(4 * m - 1, q - 2) } else { exact(2 * m - 1, q - 1) };
    FInfo { cls: "fin", neg, lo, hi: exact(2 * m + 1, q - 1), even: m & 1 == 0 }
}

pub fn finfo32(x: f32) -> FInfo {
    finfo(x.to_bits() as u64, 23, 8)
}
pub fn finfo64(x: f64) -> FInfo {
    finfo(x.to_bits(), 52, 11)
}

// ------------------------------------------------------------------ observation records
fn obs_blank() -> Value {
    json!({"k": "err", "code": 0, "neg": false, "d": [], "cls": "", "lo": [], "hi": [], "even": false,
           "ismax": false, "ismin": false, "same": false})
}
fn obs_err(e: &Error) -> Value {
    let mut o = obs_blank();
    o["code"] = json!(e.get_code());
    o
}
fn obs_panic() -> Value {
    let mut o = obs_blank();
    o["code"] = json!(99999);
    o
}
fn digits_json(s: &str) -> (bool, Vec<i64>) {
    let neg = s.starts_with('-');
    let d: Vec<i64> = s.trim_start_matches('-').trim_start_matches('0').bytes().map(|b| (b - b'0') as i64).collect();
    (neg && !d.is_empty(), d)
}
fn obs_int(s: String) -> Value {
    let (neg, d) = digits_json(&s);
    let mut o = obs_blank();
    o["k"] = json!("ok");
    o["neg"] = json!(neg);
    o["d"] = json!(d);
    o
}

// ------------------------------------------------------------------ the three public entry points of a conversion
/// 0: `T::try_from(token)`, 1: `Parameters::next_data::<T>()`, 2: `Parameters::next_optional_data::<T>()`
/// (the last two inside a handler reached through `Node::run` on `X <literal>`); rows rotate through them
pub const VIAS: [&str; 3] = ["try_from", "next_data", "next_optional_data"];
static VIA_COUNTER: std::sync::atomic::AtomicUsize = std::sync::atomic::AtomicUsize::new(0);
pub fn next_via() -> usize {
    VIA_COUNTER.fetch_add(1, std::sync::atomic::Ordering::Relaxed) % 3
}
struct ViaDev<T> {
    got: Option<std::result::Result<Option<T>, Error>>,
}
impl<T> scpi::Device for ViaDev<T> {
    fn handle_error(&mut self, _e: Error) {}
}
struct ViaH<T>(usize, std::marker::PhantomData<T>);
impl<T> scpi::tree::prelude::Command<ViaDev<T>> for ViaH<T>
where
    T: for<'a> TryFrom<Token<'a>, Error = Error>,
{
    fn event(&self, d: &mut ViaDev<T>, _c: &mut scpi::Context, mut p: scpi::tree::prelude::Parameters) -> scpi::error::Result<()> {
        d.got = Some(if self.0 == 1 { p.next_data::<T>().map(Some) } else { p.next_optional_data::<T>() });
        Ok(())
    }
}
/// the conversion of the single data element `lit` to T through entry point `via`
pub fn convert_via<T>(lit: &[u8], tok: Token, via: usize) -> std::result::Result<T, Error>
where
    T: for<'a> TryFrom<Token<'a>, Error = Error>,
{
    if via == 0 {
        return T::try_from(tok);
    }
    let h = ViaH::<T>(via, std::marker::PhantomData);
    let sub = [scpi::tree::Node::leaf(b"X", &h)];
    let root = scpi::tree::Node::Branch { name: b"", default: false, sub: &sub };
    let mut msg = b"X ".to_vec();
    msg.extend_from_slice(lit);
    let mut dev = ViaDev::<T> { got: None };
    let mut buf: Vec<u8> = Vec::new();
    let _ = root.run(&msg, &mut dev, &mut scpi::Context::default(), &mut buf);
    match dev.got {
        Some(Ok(Some(v))) => Ok(v),
        Some(Ok(None)) => Err(Error::custom(31000, b"entry point reported the element as absent")),
        Some(Err(e)) => Err(e),
        None => Err(Error::custom(31001, b"handler not reached")),
    }
}

pub fn first_token(lit: &[u8]) -> Option<Token<'_>> {
    // a panic inside the lexer is data, not a harness failure: it is reported by `lexer_panicked`
    match catch(std::panic::AssertUnwindSafe(|| Tokenizer::new_params(lit).next())) {
        Ok(Some(Ok(t))) if t.is_data() => Some(t),
        _ => None,
    }
}
/// did lexing this literal panic?  (rows for such a literal carry the panic marker as their observation)
pub fn lexer_panicked(lit: &[u8]) -> bool {
    catch(std::panic::AssertUnwindSafe(|| { let _ = Tokenizer::new_params(lit).next(); })).is_err()
}
fn shape_kind(lit: &[u8]) -> &'static str {
    if lit.first() == Some(&b'#') { "hex" } else { "num" }
}

/// [+-] (digits [. [digits]] | . digits) [E [+-] digits] and nothing else (IEEE 488.2 NRf, no white space)
pub fn is_nrf(lit: &[u8]) -> bool {
    let mut i = 0;
    let n = lit.len();
    if i < n && (lit[i] == b'+' || lit[i] == b'-') {
        i += 1;
    }
    let d0 = i;
    while i < n && lit[i].is_ascii_digit() {
        i += 1;
    }
    let ip = i - d0;
    let mut fp = 0;
    if i < n && lit[i] == b'.' {
        i += 1;
        let f0 = i;
        while i < n && lit[i].is_ascii_digit() {
            i += 1;
        }
        fp = i - f0;
    }
    if ip + fp == 0 {
        return false;
    }
    if i < n && (lit[i] == b'E' || lit[i] == b'e') {
        i += 1;
        if i < n && (lit[i] == b'+' || lit[i] == b'-') {
            i += 1;
        }
        let e0 = i;
        while i < n && lit[i].is_ascii_digit() {
            i += 1;
        }
        if i == e0 {
            return false;
        }
    }
    i == n
}

pub fn kind_of(t: &Token) -> (&'static str, Vec<i64>) {
    match t {
        Token::CharacterProgramData(_) => ("chr", vec![]),
        Token::DecimalNumericProgramData(_) => ("num", vec![]),
        Token::DecimalNumericSuffixProgramData(_, _) => ("numsuf", vec![]),
        Token::NonDecimalNumericProgramData(v) => ("hex", digits_json(&format!("{v}")).1),
        Token::StringProgramData(_) => ("str", vec![]),
        Token::ArbitraryBlockData(_) => ("blk", vec![]),
        Token::ExpressionProgramData(_) => ("expr", vec![]),
        _ => ("?", vec![]),
    }
}

/// the text the specification parses: for numbers/character data the token's own bytes
fn lit_of<'a>(t: &Token<'a>, whole: &'a [u8]) -> &'a [u8] {
    match t {
        Token::CharacterProgramData(s) | Token::DecimalNumericProgramData(s) => s,
        Token::DecimalNumericSuffixProgramData(s, _) => s,
        _ => whole,
    }
}

macro_rules! int_row {
    ($ty:ty, $name:expr, $tok:expr, $lit:expr, $out:expr) => {{
        let t = $tok;
        let via = next_via();
        let r = catch(std::panic::AssertUnwindSafe(|| convert_via::<$ty>($lit, t, via)));
        let obs = match r {
            Err(_) => obs_panic(),
            Ok(Ok(v)) => obs_int(format!("{v}")),
            Ok(Err(e)) => obs_err(&e),
        };
        let (kind, val) = kind_of(&t);
        $out.put(&json!({"t": "int", "ty": $name, "kind": kind, "lit": bytes_json(lit_of(&t, $lit)), "val": val,
                         "src": lossy($lit), "obs": obs, "via": VIAS[via]}));
    }};
}

fn int_rows_for(lit: &[u8], types: &[&str], out: &mut Out) {
    let Some(t) = first_token(lit) else {
        if lexer_panicked(lit) {
            for ty in types {
                out.put(&json!({"t": "int", "ty": ty, "kind": shape_kind(lit), "lit": bytes_json(lit), "val": [], "src": lossy(lit), "obs": obs_panic(), "via": "lexer"}));
            }
            return;
        }
        // a non-decimal literal the lexer itself refuses (too wide for its u64): the conversion's
        // result for every type is that error; the specification works out the value from the text
        let radix = match lit.get(1) { Some(b'H' | b'h') => 16, Some(b'Q' | b'q') => 8, Some(b'B' | b'b') => 2, _ => 0 };
        if is_nrf(lit) {
            // a decimal literal of NRf shape that the lexer refuses: the conversion's result is that error
            if let Some(Err(e)) = Tokenizer::new_params(lit).next() {
                for ty in types {
                    out.put(&json!({"t": "int", "ty": ty, "kind": "num", "lit": bytes_json(lit), "val": [],
                                    "src": lossy(lit), "obs": obs_err(&Error::from(e)), "via": "lexer"}));
                }
            }
        }
        if lit.len() >= 3 && lit[0] == b'#' && radix != 0 && lit[2..].iter().all(|c| (*c as char).to_digit(radix).is_some()) {
            if let Some(Err(e)) = Tokenizer::new_params(lit).next() {
                for ty in types {
                    out.put(&json!({"t": "int", "ty": ty, "kind": "hex", "lit": bytes_json(lit), "val": [],
                                    "src": lossy(lit), "obs": obs_err(&Error::from(e)), "via": "lexer"}));
                }
            }
        }
        return;
    };
    for ty in types {
        match *ty {
            "u8" => int_row!(u8, "u8", t, lit, out),
            "i8" => int_row!(i8, "i8", t, lit, out),
            "u16" => int_row!(u16, "u16", t, lit, out),
            "i16" => int_row!(i16, "i16", t, lit, out),
            "u32" => int_row!(u32, "u32", t, lit, out),
            "i32" => int_row!(i32, "i32", t, lit, out),
            "u64" => int_row!(u64, "u64", t, lit, out),
            "i64" => int_row!(i64, "i64", t, lit, out),
            "usize" => int_row!(usize, "usize", t, lit, out),
            "isize" => int_row!(isize, "isize", t, lit, out),
            _ => {}
        }
    }
}

// ------------------------------------------------------------------ literal generation
/// spellings of the decimal (-1)^neg * D * 10^-f  (D a digit string)
fn spellings(neg: bool, d: &str, f: usize, rng: &mut Rng, all: bool) -> Vec<String> {
    let d = d.trim_start_matches('0');
    let d = if d.is_empty() { "0" } else { d };
    let sign = if neg { "-" } else { "" };
    let padded = if d.len() <= f { format!("{}{}", "0".repeat(f - d.len() + 1), d) } else { d.to_string() };
    let (ip, fp) = padded.split_at(padded.len() - f);
    let mut v = vec![];
    if f == 0 {
        v.push(format!("{sign}{ip}"));
        v.push(format!("{sign}{ip}.0"));
        v.push(format!("{sign}{ip}."));
        v.push(format!("{sign}{ip}.000"));
        v.push(format!("{sign}{ip}.e0"));
        v.push(format!("{sign}{ip}.E+0"));
    } else {
        v.push(format!("{sign}{ip}.{fp}"));
        v.push(format!("{sign}{ip}.{fp}0"));
        if ip == "0" {
            v.push(format!("{sign}.{fp}"));
        }
    }
    v.push(format!("{sign}{d}e-{f}"));
    v.push(format!("{sign}{d}E-{f}"));
    v.push(format!("{sign}0.{d}e{}", d.len() as i64 - f as i64));
    v.push(format!("{sign}0.{d}E+{}", (d.len() as i64 - f as i64).max(0)));
    v.push(format!("{sign}{}.{}e{}", &d[..1], if d.len() > 1 { &d[1..] } else { "0" }, d.len() as i64 - 1 - f as i64));
    v.push(format!("{sign}00{ip}{}{}", if f > 0 { "." } else { "" }, fp));
    if !neg {
        v.push(format!("+{ip}{}{}", if f > 0 { "." } else { "" }, fp));
    }
    v.push(format!("{sign}{d}00e-{}", f + 2));
    // drop malformed combinations produced by the format tricks (e.g. "E+" with negative exponent)
    v.retain(|s| !s.contains("E+-") && !s.contains("e--"));
    if !all {
        // keep the plain form plus three random others
        let mut keep = vec![v[0].clone()];
        for _ in 0..3 {
            keep.push(rng.pick(&v).clone());
        }
        v = keep;
    }
    v.dedup();
    v
}

fn c07_literals(rng: &mut Rng, thorough: bool) -> Vec<(Vec<u8>, Vec<&'static str>)> {
    let all_types: Vec<&'static str> = vec!["u8", "i8", "u16", "i16", "u32", "i32", "u64", "i64", "usize", "isize"];
    let mut out: Vec<(Vec<u8>, Vec<&'static str>)> = vec![];
    let bounds: Vec<(&'static str, i128, i128)> = vec![
        ("u8", 0, u8::MAX as i128), ("i8", i8::MIN as i128, i8::MAX as i128), ("u16", 0, u16::MAX as i128),
        ("i16", i16::MIN as i128, i16::MAX as i128), ("u32", 0, u32::MAX as i128), ("i32", i32::MIN as i128, i32::MAX as i128),
        ("u64", 0, u64::MAX as i128), ("i64", i64::MIN as i128, i64::MAX as i128),
        ("usize", 0, usize::MAX as i128), ("isize", isize::MIN as i128, isize::MAX as i128)];
    // values within two units of each bound and of zero, in tenths (and hundredths around the halves)
    for (ty, lo, hi) in &bounds {
        for b in [*lo, *hi, 0i128, *hi / 2, 1, -1] {
            for tenth in [-20i128, -16, -15, -14, -11, -10, -9, -6, -5, -4, -1, 0, 1, 4, 5, 6, 9, 10, 11, 14, 15, 16, 20] {
                let v = b * 10 + tenth;
                for s in spellings(v < 0, &format!("{}", v.abs()), 1, rng, false) {
                    out.push((s.into_bytes(), vec![ty]));
                }
            }
            for hund in [-51i128, -50, -49, 49, 50, 51, 149, 150, 151] {
                let v = b * 100 + hund;
                out.push((spellings(v < 0, &format!("{}", v.abs()), 2, rng, false)[0].clone().into_bytes(), vec![ty]));
            }
        }
    }
    // zero in every spelling, tiny and huge magnitudes
    for z in ["0", "0.0", "-0", "+0", "0e0", ".0", "0.", "-0.0", "00", "0E5", "0.000", "-.0", "1e-50", "-1e-50", "1e-400", "4.9e-324",
              "0.49", "0.5", "0.51", "-0.49", "-0.5", "-0.51", "1e30", "-1e30", "1e400", "-1e400", "1e19", "1e20", "9.9e18", "1.5", "2.5", "-1.5", "-2.5",
              "0042", "+000255", "0000", "-0128", "065535", "0065536", "018446744073709551615", "000000000000000000000001", "-00000000000000000000", "00127", "000128",
              "4503599627370497.0", "4503599627370495.0", "4503599627370499.0", "9007199254740991.0", "6755399441055745.0", "-4503599627370497.0", "4503599627370497.4", "4.503599627370497e15",
              "2251799813685249.0", "2251799813685248.5", "9007199254740993", "9007199254740993.0", "18446744073709551615.0", "18446744073709551616.0",
              "9223372036854775807.0", "9223372036854775808.0", "-9223372036854775808.0", "-9223372036854775809.0",
              "16777217.0", "16777216.5", "65535.49", "65535.5", "32767.5", "-32768.5", "-32768.49", "127.5", "-128.5", "255.5"] {
        out.push((z.as_bytes().to_vec(), all_types.clone()));
    }
    // powers of two +-1
    for k in 7..=64u32 {
        let p = 1i128 << k;
        for v in [p - 1, p, p + 1, -(p - 1), -p, -(p + 1)] {
            let s = format!("{v}");
            out.push((s.clone().into_bytes(), all_types.clone()));
            out.push((format!("{s}.0").into_bytes(), all_types.clone()));
            out.push((format!("{s}.5").into_bytes(), all_types.clone()));
        }
    }
    // non-decimal spellings of bounds +-1
    for (_, _, hi) in &bounds {
        for v in [*hi - 1, *hi, *hi + 1, 0, 1] {
            if v >= 0 && v <= u64::MAX as i128 {
                out.push((format!("#H{:X}", v).into_bytes(), all_types.clone()));
                out.push((format!("#h{:x}", v).into_bytes(), all_types.clone()));
                out.push((format!("#Q{:o}", v).into_bytes(), all_types.clone()));
                out.push((format!("#B{:b}", v).into_bytes(), all_types.clone()));
            }
        }
    }
    // non-decimal literals wider than 64 bits, leading zeros, lower-case digits
    for z in ["#H10000000000000000", "#H10000000000000005", "#HFFFFFFFFFFFFFFFFF", "#H1FFFFFFFFFFFFFFFF", "#H123456789ABCDEF012",
              "#Q2000000000000000000000", "#Q3777777777777777777777", "#Q2000000000000000000005", "#Q7777777777777777777777",
              "#Q10000000000000000000000", "#Q1777777777777777777777", "#Q1777777777777777777776",
              "#B10000000000000000000000000000000000000000000000000000000000000000",
              "#B10000000000000000000000000000000000000000000000000000000000101010",
              "#B1111111111111111111111111111111111111111111111111111111111111111",
              "#B11111111111111111111111111111111111111111111111111111111111111111",
              "#H00000000000000000000FF", "#Q000000000000000000000000377", "#B0000000000000000000000000000000000000000000000000000000000000000011111111",
              "#hff", "#HfF", "#q377", "#b101", "#H0", "#Q0", "#B0", "#H00", "#HFFFFFFFFFFFFFFFF", "#hffffffffffffffff", "#H7FFFFFFFFFFFFFFF", "#H8000000000000000"] {
        out.push((z.as_bytes().to_vec(), all_types.clone()));
    }
    for _ in 0..(if thorough { 400 } else { 60 }) {
        // random widths around the 64-bit edge in each radix
        let (pfx, radix, maxd) = *rng.pick(&[("#H", 16u32, 18usize), ("#Q", 8, 24), ("#B", 2, 67), ("#h", 16, 18), ("#q", 8, 24), ("#b", 2, 67)]);
        let n = 1 + rng.below(maxd as u64) as usize;
        let mut s = String::from(pfx);
        for _ in 0..n {
            s.push(std::char::from_digit(rng.below(radix as u64) as u32, radix).unwrap());
        }
        out.push((s.into_bytes(), all_types.clone()));
    }
    // digit runs of 255 / 256 / 257 / 512 digits (leading zeros are not significant), exponents written with leading zeros
    {
        let z = |n: usize| "0".repeat(n);
        let mut long: Vec<String> = vec![];
        for n in [20usize, 21, 22, 253, 254, 255, 256, 257, 300, 509, 510] {
            long.push(format!("{}127", z(n)));
            long.push(format!("-{}128", z(n)));
            long.push(format!("{}41.60", z(n)));
            long.push(format!("-{}1E2", z(n)));
        }
        for n in [21usize, 255, 256, 257, 512] {
            long.push(z(n));
            long.push(format!("{}.{}", z(n), z(n)));
            long.push(format!("7.{}", z(n)));
            long.push(format!("0.{}9", z(n)));
            long.push(format!("1{}", z(n)));
            long.push(format!("{}.5", "1".repeat(n)));
        }
        for e in ["1E000003", "1e+000002", "25E-0000001", "100E-000000000002", "1E00000", "-1.5e0000000001", "2E32001", "2E-32001", "1E65536", "1E99999",
                  "1E2147483647", "1E2147483648", "1E-4294967296", "1.5e99999999999999999999", "0E2147483648", "255.0", "2.55E2", "2550E-1", "0.255E3", "255.",
                  "65535.0", "6.5535E4", "127.0", "-128.0", "1.28E2", "32767.0", "4294967295.0", "2147483647.0", "-2147483648.0"] {
            long.push(e.to_string());
        }
        for n in [250usize, 254, 255, 256, 257, 300, 512] {
            long.push(format!("#B{}101010", z(n)));
            long.push(format!("#H{}fF", z(n)));
            long.push(format!("#q{}377", z(n)));
        }
        for s in long {
            out.push((s.into_bytes(), all_types.clone()));
        }
    }
    // keywords and near misses; other element types
    for k in ["MIN", "MAX", "MINimum", "MAXIMUM", "min", "maximum", "Max", "mINIMUM", "MAXI", "MINIMU", "MAXIMUMS", "MA", "MI", "M", "DEF", "INF", "NAN",
              "MAX1", "MIN2", "MAXimum1", "ON", "ABC", "1 V", "1V", "255 S", "0 HZ", "'1'", "\"255\"", "#11A", "#10", "(1)", "(255)", "#HFF V"] {
        out.push((k.as_bytes().to_vec(), all_types.clone()));
    }
    // random literals
    let nrand = if thorough { 300_000 } else { 1500 };
    for _ in 0..nrand {
        let nd = 1 + rng.below(22) as usize;
        let d: String = (0..nd).map(|i| (b'0' + if i == 0 { 1 + rng.below(9) } else { rng.below(10) } as u8) as char).collect();
        let f = rng.below(nd as u64 + 2) as usize;
        let neg = rng.chance(1, 3);
        let sp = spellings(neg, &d, f, rng, false);
        out.push((rng.pick(&sp).clone().into_bytes(), vec![*rng.pick(&all_types), *rng.pick(&all_types)]));
    }
    out
}

pub fn rows_c07(args: &[String]) -> i32 {
    let seed = arg_u64(args, "--seed", 1);
    let thorough = arg_value(args, "--tier").as_deref() == Some("thorough");
    let mut out = Out::new(&arg_value(args, "--out").unwrap_or("-".into()));
    let mut rng = Rng::new(seed ^ 0xC07);
    for (lit, types) in c07_literals(&mut rng, thorough) {
        int_rows_for(&lit, &types, &mut out);
    }
    out.finish();
    0
}

// ------------------------------------------------------------------ C08
fn obs_float(cls_info: FInfo, ismax: bool, ismin: bool) -> Value {
    let mut o = obs_blank();
    o["k"] = json!("ok");
    o["cls"] = json!(cls_info.cls);
    o["neg"] = json!(cls_info.neg);
    o["lo"] = bytes_json(cls_info.lo.as_bytes());
    o["hi"] = bytes_json(cls_info.hi.as_bytes());
    o["even"] = json!(cls_info.even);
    o["ismax"] = json!(ismax);
    o["ismin"] = json!(ismin);
    o
}

fn float_rows_for(lit: &[u8], out: &mut Out) {
    let Some(t) = first_token(lit) else {
        if lexer_panicked(lit) {
            for w in [32, 64] {
                out.put(&json!({"t": "flt", "w": w, "kind": shape_kind(lit), "lit": bytes_json(lit), "src": lossy(lit), "obs": obs_panic(), "via": "lexer"}));
            }
            return;
        }
        if is_nrf(lit) {
            if let Some(Err(e)) = Tokenizer::new_params(lit).next() {
                for w in [32, 64] {
                    out.put(&json!({"t": "flt", "w": w, "kind": "num", "lit": bytes_json(lit), "src": lossy(lit), "obs": obs_err(&Error::from(e)), "via": "lexer"}));
                }
                out.put(&json!({"t": "bool", "kind": "num", "lit": bytes_json(lit), "src": lossy(lit), "obs": obs_err(&Error::from(e)), "via": "lexer"}));
            }
        }
        return;
    };
    let (kind, _) = kind_of(&t);
    let via = next_via();
    let r32 = catch(std::panic::AssertUnwindSafe(|| convert_via::<f32>(lit, t, via)));
    let o32 = match r32 {
        Err(_) => obs_panic(),
        Ok(Ok(x)) => obs_float(finfo32(x), x == f32::MAX, x == f32::MIN),
        Ok(Err(e)) => obs_err(&e),
    };
    out.put(&json!({"t": "flt", "w": 32, "kind": kind, "lit": bytes_json(lit_of(&t, lit)), "src": lossy(lit), "obs": o32, "via": VIAS[via]}));
    let via = next_via();
    let r64 = catch(std::panic::AssertUnwindSafe(|| convert_via::<f64>(lit, t, via)));
    let o64 = match r64 {
        Err(_) => obs_panic(),
        Ok(Ok(x)) => obs_float(finfo64(x), x == f64::MAX, x == f64::MIN),
        Ok(Err(e)) => obs_err(&e),
    };
    out.put(&json!({"t": "flt", "w": 64, "kind": kind, "lit": bytes_json(lit_of(&t, lit)), "src": lossy(lit), "obs": o64, "via": VIAS[via]}));
}

fn bool_row(lit: &[u8], out: &mut Out) {
    let Some(t) = first_token(lit) else { return };
    let (kind, _) = kind_of(&t);
    let via = next_via();
    let r = catch(std::panic::AssertUnwindSafe(|| convert_via::<bool>(lit, t, via)));
    let obs = match r {
        Err(_) => obs_panic(),
        Ok(Ok(b)) => obs_int(if b { "1".into() } else { "0".into() }),
        Ok(Err(e)) => obs_err(&e),
    };
    out.put(&json!({"t": "bool", "kind": kind, "lit": bytes_json(lit_of(&t, lit)), "src": lossy(lit), "obs": obs, "via": VIAS[via]}));
}

fn acc_rows(lit: &[u8], out: &mut Out) {
    let Some(t) = first_token(lit) else { return };
    let (kind, _) = kind_of(&t);
    let payload: Option<&[u8]> = match t {
        Token::StringProgramData(s) | Token::ArbitraryBlockData(s) | Token::ExpressionProgramData(s) | Token::CharacterProgramData(s) => Some(s),
        _ => None,
    };
    let utf8ok = payload.map_or(true, |p| std::str::from_utf8(p).is_ok());
    let mk = |r: std::result::Result<std::result::Result<Vec<u8>, Error>, String>| -> Value {
        match r {
            Err(_) => obs_panic(),
            Ok(Err(e)) => obs_err(&e),
            Ok(Ok(got)) => {
                let mut o = obs_blank();
                o["k"] = json!("ok");
                o["same"] = json!(Some(&got[..]) == payload);
                o
            }
        }
    };
    let targets: Vec<(&str, Value)> = vec![
        ("bytes", mk(catch(std::panic::AssertUnwindSafe(|| <&[u8]>::try_from(t).map(|s| s.to_vec()))))),
        ("utf8", mk(catch(std::panic::AssertUnwindSafe(|| <&str>::try_from(t).map(|s| s.as_bytes().to_vec()))))),
        ("arb", mk(catch(std::panic::AssertUnwindSafe(|| Arbitrary::try_from(t).map(|s| s.0.to_vec()))))),
        ("char", mk(catch(std::panic::AssertUnwindSafe(|| Character::try_from(t).map(|s| s.0.to_vec()))))),
        ("expr", mk(catch(std::panic::AssertUnwindSafe(|| Expression::try_from(t).map(|s| s.0.to_vec()))))),
    ];
    for (target, obs) in targets {
        out.put(&json!({"t": "acc", "target": target, "kind": kind, "utf8ok": utf8ok, "src": lossy(lit), "obs": obs}));
    }
}

/// decimal text of the exact midpoint +- one unit in an extra last place
fn around(mid: &str) -> Vec<String> {
    let (ip, fp) = match mid.split_once('.') {
        Some((a, b)) => (a.to_string(), b.to_string()),
        None => (mid.to_string(), String::new()),
    };
    // below: decrement the last digit of the digit string and append 9
    let mut digits: Vec<u8> = format!("{ip}{fp}").into_bytes();
    let f = fp.len();
    let fmt = |d: &[u8], f: usize| -> String {
        let s = String::from_utf8(d.to_vec()).unwrap();
        if f == 0 { s } else { format!("{}.{}", &s[..s.len() - f], &s[s.len() - f..]) }
    };
    let exact = fmt(&digits, f);
    let mut above = digits.clone();
    above.push(b'1');
    let above = fmt(&above, f + 1);
    // borrow-free decrement: exact expansions of midpoints end in a non-zero digit unless they are integers
    let mut i = digits.len();
    while i > 0 && digits[i - 1] == b'0' {
        digits[i - 1] = b'9';
        i -= 1;
    }
    if i > 0 {
        digits[i - 1] -= 1;
    }
    digits.push(b'9');
    let below = fmt(&digits, f + 1);
    vec![exact, above, below]
}

fn sci(s: &str, rng: &mut Rng) -> String {
    // re-spell a plain decimal with an exponent
    let (ip, fp) = match s.split_once('.') {
        Some((a, b)) => (a, b),
        None => (s, ""),
    };
    let shift = rng.below(40) as i64 - 20;
    if shift >= 0 {
        format!("{ip}{fp}{}e-{}", "0".repeat(shift as usize), fp.len() as i64 + shift)
    } else {
        format!("0.{}{ip}{fp}E+{}", "0".repeat((-shift) as usize - 1), ip.len() as i64 - shift - 1)
    }
}

pub fn rows_c08(args: &[String]) -> i32 {
    let seed = arg_u64(args, "--seed", 1);
    let thorough = arg_value(args, "--tier").as_deref() == Some("thorough");
    let mut out = Out::new(&arg_value(args, "--out").unwrap_or("-".into()));
    let mut rng = Rng::new(seed ^ 0xC08);
    let mut lits: Vec<String> = vec![];
    // halfway cases between adjacent floats (both widths), and one last-place unit either side
    let nsamp = if thorough { 400 } else { 40 };
    let mut f32s: Vec<f32> = vec![f32::MAX, f32::MIN_POSITIVE, f32::from_bits(1), f32::from_bits(0x007fffff), 1.0, 16777216.0, 16777218.0, 0.1, 3.0e38, 1e-45, 8388608.0];
    let mut f64s: Vec<f64> = vec![f64::MAX, f64::MIN_POSITIVE, f64::from_bits(1), f64::from_bits(0x000fffffffffffff), 1.0, 9007199254740992.0, 0.1, 1.7e308, 5e-324, 4503599627370496.0];
    for _ in 0..nsamp {
        f32s.push(f32::from_bits((rng.next() as u32) & 0x7f7fffff));
        f64s.push(f64::from_bits(rng.next() & 0x7fefffffffffffff));
        // near-subnormal and near-overflow exponents
        f32s.push(f32::from_bits((rng.next() as u32) & 0x00ffffff));
        f64s.push(f64::from_bits(rng.next() & 0x001fffffffffffff));
    }
    for x in f32s {
        if x.is_finite() && x > 0.0 {
            let fi = finfo32(x);
            for m in [&fi.lo, &fi.hi] {
                for s in around(m) {
                    lits.push(s.clone());
                    if rng.chance(1, 3) { lits.push(sci(&s, &mut rng)); }
                    if rng.chance(1, 4) { lits.push(format!("-{s}")); }
                }
            }
        }
    }
    for x in f64s {
        if x.is_finite() && x > 0.0 {
            let fi = finfo64(x);
            for m in [&fi.lo, &fi.hi] {
                for s in around(m) {
                    lits.push(s.clone());
                    if rng.chance(1, 4) { lits.push(format!("-{s}")); }
                }
            }
        }
    }
    {
        let z = |n: usize| "0".repeat(n);
        for n in [20usize, 21, 255, 256, 257, 512] {
            lits.push(format!("{}1", z(n)));
            lits.push(z(n + 1));
            lits.push(format!("-{}2.5", z(n)));
            lits.push(format!("1{}", z(n)));
            lits.push(format!("0.{}", "3".repeat(n)));
            lits.push(format!("0.{}7", z(n)));
            lits.push(format!("{}.{}5", "9".repeat(n), z(n)));
        }
        for e in ["1E000003", "1e+000002", "25E-0000001", "1E00000", "-1.5e0000000001", "2E32001", "2E-32001", "1E65536", "-1E99999",
                  "1E2147483647", "1E2147483648", "1E-4294967296", "1.5e99999999999999999999", "-2E-99999999999999999999",
                  // the magnitudes the response formatter uses as NaN / infinity sentinels are ordinary finite values as PROGRAM data
                  "9.9E+37", "99e36", "0.99e38", "-9.9e37", "9.91E37", "991E35", "-9.91e+37", "9.9E37", "9.91E+37"] {
            lits.push(e.to_string());
        }
    }
    for z in ["-.5", "+.5", "-.25e3", "+.125E-2", "-.0", "+.0", "-5.", "+5.", "5.e2", "-5.E-1", "00012.50", "-0001.", "+000.5", "1.e0", ".5e+1",
              "0", "0.0", "-0", "+0", "0e0", ".0", "0.", "-0.0", "1e-400", "-1e-400", "1e400", "-1e400", "1e39", "3.5e38", "3.4028235e38", "3.4028236e38",
              "1.8e308", "1.7976931348623157e308", "1.7976931348623159e308", "4.9e-324", "2.4e-324", "2.5e-324", "1.4e-45", "7e-46", "7.1e-46",
              "16777217", "16777217.0", "9007199254740993", "0.1", "0.30000000000000004", "123456789012345678901234567890", "1.00000000000000011102230246251565404236316680908203125",
              "1.5", "2.5", "1e0", "1E+0", "1e-0", "+1.5e+3", "-1.5E-3", "5e-1", ".5", "5."] {
        lits.push(z.to_string());
    }
    let nrand = if thorough { 200_000 } else { 600 };
    for _ in 0..nrand {
        let nd = 1 + rng.below(30) as usize;
        let d: String = (0..nd).map(|_| (b'0' + rng.below(10) as u8) as char).collect();
        let e = rng.below(700) as i64 - 350;
        lits.push(format!("{}{}.{}e{}", if rng.chance(1, 3) { "-" } else { "" }, &d[..1], if nd > 1 { &d[1..] } else { "0" }, e));
    }
    for l in &lits {
        float_rows_for(l.as_bytes(), &mut out);
    }
    // keywords, near misses and other element types through the float conversion
    for k in ["INF", "INFinity", "inf", "infinity", "NINF", "ninfinity", "NINFINITY", "NAN", "nan", "NaN", "MAX", "MAXimum", "max", "MIN", "minimum", "MINIMUM",
              "XINF", "MINF", "AINFINITY", "xinfinity", "NNAN", "XNAN", "NNINF", "INNF", "IINF", "NINFF", "XMAX", "MMIN", "MAXX", "ANAN",
              "INFI", "INFINIT", "NINFI", "NA", "NANN", "MAXI", "MI", "DEF", "INF1", "INFINITY1", "NINF1", "NAN1", "MAX1", "MINIMUM1", "MIN1", "INF2", "MAX0", "ABC", "ON", "1 V", "1V", "'1'", "#11A", "(1)", "#HFF", "#Q7", "#B1"] {
        float_rows_for(k.as_bytes(), &mut out);
    }
    // booleans
    for b in ["ON", "OFF", "on", "off", "On", "oFf", "oN", "ONN", "O", "OF", "OFFF", "TRUE", "FALSE", "YES", "1", "0", "0.4", "0.5", "0.6", "-0.4", "-0.6", "-1",
              "1e-50", "0.0", "-0", "+0", "0e0", ".0", "0.", "2", "255", "1e30", "-1e30", "1e400", "0.49999", "0.50001", "1.5", "-0.0", "00", "1e0", "10e-1", "4e-1",
              "#H1", "#H0", "#B1", "#Q0", "'ON'", "\"1\"", "#11A", "(1)", "1 V", "0V"] {
        bool_row(b.as_bytes(), &mut out);
    }
    // booleans written with many digits: leading zeros are not significant; a huge value is non-zero or out of range
    for n in [19usize, 20, 21, 22, 255, 256, 257] {
        for s in [format!("{}1", "0".repeat(n)), "0".repeat(n + 1), format!("-{}2", "0".repeat(n)), format!("{}.{}", "0".repeat(n), "0".repeat(n)),
                  format!("0.{}1", "0".repeat(n)), format!("1E{}3", "0".repeat(n.min(30))), format!("9{}", "9".repeat(n))] {
            bool_row(s.as_bytes(), &mut out);
        }
    }
    // accept matrix of the byte-ish targets over every element type (incl. invalid UTF-8 payloads)
    for e in [&b"ABC"[..], b"1", b"-1.5e3", b"1 V", b"#HFF", b"'text'", b"\"a\"\"b\"", b"''", b"'caf\xc3\xa9'", b"#13abc", b"#10", b"#12\xff\xfe", b"#14\xf0\x9f\x98\x80",
              b"(1,2)", b"()", b"(@1:2)", b"#210ABCDEFGHIJ", b"'\x7f\x01'"] {
        acc_rows(e, &mut out);
    }
    out.finish();
    0
}

// ------------------------------------------------------------------ C17
pub fn dec_json(s: &str) -> Value {
    // plain decimal text (Rust Display of an integer or float) -> {nan, neg, d, e}
    if s == "NaN" {
        return json!({"nan": true, "neg": false, "d": [], "e": 0});
    }
    let neg = s.starts_with('-');
    let s = s.trim_start_matches('-');
    if s == "inf" {
        return json!({"nan": false, "neg": neg, "d": [1], "e": 400});
    }
    let (ip, fp) = match s.split_once('.') {
        Some((a, b)) => (a, b),
        None => (s, ""),
    };
    let mut digits: Vec<i64> = format!("{ip}{fp}").bytes().map(|b| (b - b'0') as i64).collect();
    let mut e = -(fp.len() as i64);
    while digits.last() == Some(&0) {
        digits.pop();
        e += 1;
    }
    while digits.first() == Some(&0) {
        digits.remove(0);
    }
    if digits.is_empty() {
        e = 0;
    }
    json!({"nan": false, "neg": neg && !digits.is_empty(), "d": digits, "e": e})
}

trait Show: Sized {
    fn show(&self) -> String;
    /// the type's own least / greatest value (independent of the library's NumericValueDefaults)
    fn tmin() -> Self;
    fn tmax() -> Self;
}
macro_rules! show_display {
    ($($t:ty),*) => { $(impl Show for $t {
        fn show(&self) -> String { format!("{}", self) }
        fn tmin() -> Self { <$t>::MIN }
        fn tmax() -> Self { <$t>::MAX }
    })* };
}
show_display!(u8, i16, i64, f32, f64);
impl Show for scpi::units::Time {
    fn show(&self) -> String {
        format!("{}", self.value)
    }
    fn tmin() -> Self {
        scpi::units::Time::new::<scpi::units::uom::si::time::second>(f32::MIN)
    }
    fn tmax() -> Self {
        scpi::units::Time::new::<scpi::units::uom::si::time::second>(f32::MAX)
    }
}

fn nv_rows<T>(tyname: &str, elems: &[&[u8]], configs: &[(T, T, Option<T>)], out: &mut Out)
where
    T: for<'a> TryFrom<Token<'a>, Error = Error> + PartialOrd + Copy + Show + scpi_contrib::scpi1999::NumericValueDefaults,
{
    for lit in elems {
        let Some(t) = first_token(lit) else { continue };
        let (kind, _) = kind_of(&t);
        for (ci, (min, max, def)) in configs.iter().enumerate() {
            // several ways of configuring the builder (call order is part of the configuration space)
            for order in 0..9u32 {
                // orders 4 and 5 start from NumericValue::build(): the bound that is not set is the type's own
                let (emin, emax) = match order {
                    4 => (T::tmin(), *max),
                    5 => (*min, T::tmax()),
                    _ => (*min, *max),
                };
                let r = catch(std::panic::AssertUnwindSafe(|| {
                    let nv = NumericValue::<T>::try_from(t);
                    match nv {
                        Err(e) => ("err", None, Err(e)),
                        Ok(nv) => {
                            let (variant, tv) = match &nv {
                                NumericValue::Value(v) => ("value", Some(*v)),
                                NumericValue::Maximum => ("max", None),
                                NumericValue::Minimum => ("min", None),
                                NumericValue::Default => ("def", None),
                                NumericValue::Up => ("up", None),
                                NumericValue::Down => ("down", None),
                            };
                            let b = NumericBuilder::new(nv, *max, *min);
                            let fin = match (order, def) {
                                (0, Some(d)) => b.default(*d).finish(),
                                (1, Some(d)) => b.default(*d).max(*max).min(*min).finish(),
                                (2, Some(d)) => b.min(*min).default(*d).max(*max).finish(),
                                (3, Some(d)) => b.max(*max).min(*min).default(*d).finish(),
                                (0, None) => b.finish(),
                                (1, None) => b.max(*max).min(*min).finish(),
                                (2, None) => nv.finish_with_fallback(*max, *min),
                                (3, None) => b.min(*min).finish(),
                                (4, Some(d)) => nv.build().max(*max).default(*d).finish(),
                                (4, None) => nv.build().max(*max).finish(),
                                (5, Some(d)) => nv.build().default(*d).min(*min).finish(),
                                (5, None) => nv.build().min(*min).finish(),
                                // 6: the parsed value passes through map() (e.g. a unit scaling) before it is resolved
                                (6, Some(d)) => NumericBuilder::new(nv.map(|v| v), *max, *min).default(*d).finish(),
                                (6, None) => NumericBuilder::new(nv.map(|v| v), *max, *min).finish(),
                                // 7: the default is configured twice; the last call counts
                                (7, Some(d)) => b.default(*min).default(*max).default(*d).finish(),
                                (7, None) => b.max(*min).max(*max).finish(),
                                // 8: the documented shorthand finish_with(max, min) (no default)
                                (8, Some(d)) => nv.build().max(*max).min(*min).default(*d).finish(),
                                (_, None) => nv.finish_with(*max, *min),
                                _ => unreachable!(),
                            };
                            (variant, tv, fin)
                        }
                    }
                }));
                let blank = dec_json("0");
                // what the underlying type itself makes of the element (a non-keyword converts "as its underlying numeric type")
                let under = match catch(std::panic::AssertUnwindSafe(|| T::try_from(t))) {
                    Err(_) => json!({"k": "err", "code": 99999, "v": blank}),
                    Ok(Ok(v)) => json!({"k": "ok", "code": 0, "v": dec_json(&v.show())}),
                    Ok(Err(e)) => json!({"k": "err", "code": e.get_code(), "v": blank}),
                };
                let mut row = match r {
                    Err(_) => json!({"t": "nv", "ty": tyname, "kind": kind, "lit": bytes_json(lit_of(&t, lit)), "src": lossy(lit), "cfg": ci, "order": order,
                                     "variant": "panic", "tv": blank, "min": dec_json(&emin.show()), "max": dec_json(&emax.show()), "hasdef": def.is_some(),
                                     "def": blank, "final": {"k": "err", "code": 99999, "v": blank}}),
                    Ok((variant, tv, fin)) => json!({"t": "nv", "ty": tyname, "kind": kind, "lit": bytes_json(lit_of(&t, lit)), "src": lossy(lit), "cfg": ci, "order": order,
                                     "variant": variant, "tv": tv.map(|v| dec_json(&v.show())).unwrap_or(blank.clone()),
                                     "min": dec_json(&emin.show()), "max": dec_json(&emax.show()), "hasdef": def.is_some(),
                                     "def": def.map(|d| dec_json(&d.show())).unwrap_or(blank.clone()),
                                     "final": match fin { Ok(v) => json!({"k": "ok", "code": 0, "v": dec_json(&v.show())}),
                                                          Err(e) => json!({"k": "err", "code": e.get_code(), "v": blank}) }}),
                };
                row["under"] = under;
                out.put(&row);
            }
        }
    }
}

trait FinishFallback<T> {
    fn finish_with_fallback(self, max: T, min: T) -> scpi::error::Result<T>;
}
impl<T: PartialOrd> FinishFallback<T> for NumericValue<T> {
    fn finish_with_fallback(self, max: T, min: T) -> scpi::error::Result<T> {
        NumericBuilder::new(self, max, min).finish()
    }
}

pub fn rows_c17(args: &[String]) -> i32 {
    let mut out = Out::new(&arg_value(args, "--out").unwrap_or("-".into()));
    let kws: Vec<&[u8]> = vec![b"MAX", b"MAXimum", b"max", b"maximum", b"MaXiMuM", b"MIN", b"MINimum", b"min", b"minimum", b"DEF", b"DEFault", b"def", b"default",
                               b"UP", b"up", b"Up", b"DOWN", b"down", b"MAXI", b"MAXIMU", b"MAXIMUMM", b"MA", b"MINI", b"DEFA", b"DEFAUL", b"DE", b"U", b"UPP", b"DOW", b"DOWNN",
                               b"MAX1", b"DEFault1", b"UP1", b"ABC", b"ON",
                               b"DOWNx", b"DOWNward", b"DOWN_", b"UPx", b"UP_", b"UPward", b"MAXimumx", b"DEFaultx", b"MINx", b"MAX_", b"DEFa", b"MINimumm", b"Dx", b"Ux",
                               b"'MAX'", b"\"def\"", b"'UP'", b"\"MINimum\"", b"#13MAX", b"(MAX)", b"(DEF)"];
    let ints: Vec<&[u8]> = vec![b"0", b"1", b"-1", b"9", b"10", b"11", b"-10", b"-11", b"100", b"101", b"-100", b"-101", b"99", b"5", b"5.4", b"5.6", b"10.4", b"10.6",
                                b"255", b"256", b"-129", b"#HA", b"#H65", b"1 V", b"'5'", b"(5)", b"#11A", b"1e3", b"32767", b"-32768", b"32768",
                                b"9223372036854775807", b"-9223372036854775808"];
    let flts: Vec<&[u8]> = vec![b"0", b"0.5", b"-0.5", b"10", b"10.25", b"9.75", b"-10", b"-10.25", b"100", b"100.5", b"-100.5", b"1e38", b"-1e38", b"1e39", b"1e400", b"-1e400",
                                b"NAN", b"nan", b"INF", b"NINF", b"INFinity", b"5", b"5.5", b"2.5", b"1e-40", b"3 S", b"3S", b"'3'", b"(3)"];
    let mut e1 = kws.clone();
    e1.extend(ints.iter());
    let mut e2 = kws.clone();
    e2.extend(flts.iter());
    nv_rows::<u8>("u8", &e1, &[(0, 255, None), (0, 255, Some(7)), (10, 100, Some(10)), (10, 100, None), (10, 10, Some(10)), (5, 5, None), (0, 0, Some(0))], &mut out);
    nv_rows::<i16>("i16", &e1, &[(i16::MIN, i16::MAX, None), (-100, 100, Some(0)), (-100, 100, None), (-10, -10, Some(-10)), (10, 11, Some(11))], &mut out);
    nv_rows::<i64>("i64", &e1, &[(i64::MIN, i64::MAX, Some(1)), (-100, 100, None), (0, 10, Some(5)), (-1, -1, None)], &mut out);
    nv_rows::<f32>("f32", &e2, &[(f32::MIN, f32::MAX, None), (-100.0, 100.0, Some(1.0)), (-100.0, 100.0, None), (10.0, 10.0, Some(10.0)), (-10.25, 10.25, Some(-10.25)),
                                 (f32::NEG_INFINITY, f32::INFINITY, Some(0.5)), (0.0, 0.0, None)], &mut out);
    nv_rows::<f64>("f64", &e2, &[(f64::MIN, f64::MAX, Some(2.5)), (-100.0, 100.0, None), (0.5, 0.5, Some(0.5)), (-100.5, 100.5, Some(100.5))], &mut out);
    let tm = |v: f32| scpi::units::Time::new::<scpi::units::uom::si::time::second>(v);
    let te: Vec<&[u8]> = vec![b"MAX", b"MIN", b"DEF", b"UP", b"down", b"maximum", b"MAXI", b"1", b"1 S", b"1S", b"1 MS", b"500 MS", b"2 MIN", b"0.5", b"11", b"-1 S", b"1 V", b"'1'", b"1e3 US"];
    nv_rows::<scpi::units::Time>("time", &te, &[(tm(0.0), tm(10.0), Some(tm(1.0))), (tm(0.0), tm(10.0), None), (tm(1.0), tm(1.0), Some(tm(1.0))), (tm(-1.0), tm(120.0), None)], &mut out);
    out.finish();
    0
}
