//! C02 / C05 / C06 / C10 / C11 (and the message half of C01): replay of TLC-enumerated program
//! messages on the real dispatcher with scripted, logging handlers.

use crate::util::*;
use arrayvec::ArrayVec;
use scpi::error::{Error, Result};
use scpi::tree::prelude::*;
use serde_json::{json, Value};
use std::cell::Cell;

// ---------------------------------------------------------------- allocation counting (C11)
pub struct CountingAlloc;
thread_local! {
    static COUNTING: Cell<bool> = const { Cell::new(false) };
    static ALLOCS: Cell<u64> = const { Cell::new(0) };
}
unsafe impl std::alloc::GlobalAlloc for CountingAlloc {
    unsafe fn alloc(&self, l: std::alloc::Layout) -> *mut u8 {
        let _ = COUNTING.try_with(|c| {
            if c.get() {
                let _ = ALLOCS.try_with(|a| a.set(a.get() + 1));
            }
        });
        std::alloc::System.alloc(l)
    }
    unsafe fn dealloc(&self, p: *mut u8, l: std::alloc::Layout) {
        std::alloc::System.dealloc(p, l)
    }
    unsafe fn realloc(&self, p: *mut u8, l: std::alloc::Layout, n: usize) -> *mut u8 {
        let _ = COUNTING.try_with(|c| {
            if c.get() {
                let _ = ALLOCS.try_with(|a| a.set(a.get() + 1));
            }
        });
        std::alloc::System.realloc(p, l, n)
    }
}
/// run `f` (library code) with allocation counting on
fn lib<T>(f: impl FnOnce() -> T) -> T {
    let prev = COUNTING.with(|c| c.replace(true));
    let r = f();
    COUNTING.with(|c| c.set(prev));
    r
}
/// run `f` (harness bookkeeping) with allocation counting off
fn own<T>(f: impl FnOnce() -> T) -> T {
    let prev = COUNTING.with(|c| c.replace(false));
    let r = f();
    COUNTING.with(|c| c.set(prev));
    r
}

// ---------------------------------------------------------------- device + scripted handlers
#[derive(Clone, Default)]
pub struct Script {
    pub pulls: Vec<u8>, // 1 = required, 0 = optional, 2 = optional and lenient (a read error is swallowed: `while let Ok(Some(x))`)
    pub res: (i64, i64),
    pub hdr: Vec<u8>,
    pub items: Vec<Vec<u8>>,
    pub partial: bool,
}

pub struct Call {
    pub leaf: i64,
    pub query: bool,
    pub got: Vec<Value>,
}

#[derive(Default)]
pub struct XDev {
    pub scripts: Vec<Script>,
    pub inv: usize,
    pub calls: Vec<Call>,
    pub hook: Vec<Error>,
}

impl Device for XDev {
    fn handle_error(&mut self, err: Error) {
        own(|| self.hook.push(err))
    }
}

pub fn tok_json(t: &Token) -> Value {
    let (k, p1, p2): (&str, Vec<u8>, Vec<u8>) = match t {
        Token::CharacterProgramData(s) => ("chr", s.to_vec(), vec![]),
        Token::DecimalNumericProgramData(s) => ("num", s.to_vec(), vec![]),
        Token::DecimalNumericSuffixProgramData(s, x) => ("numsuf", s.to_vec(), x.to_vec()),
        Token::NonDecimalNumericProgramData(v) => ("hex", format!("{v}").into_bytes(), vec![]),
        Token::StringProgramData(s) => ("str", s.to_vec(), vec![]),
        Token::ArbitraryBlockData(s) => ("blk", s.to_vec(), vec![]),
        Token::ExpressionProgramData(s) => ("expr", s.to_vec(), vec![]),
        Token::HeaderMnemonicSeparator => ("SEP:", vec![], vec![]),
        Token::HeaderQuerySuffix => ("SEP?", vec![], vec![]),
        Token::ProgramMessageUnitSeparator => ("SEP;", vec![], vec![]),
        Token::ProgramHeaderSeparator => ("SEPws", vec![], vec![]),
        Token::ProgramDataSeparator => ("SEP,", vec![], vec![]),
        Token::ProgramMnemonic(s) => ("mnem", s.to_vec(), vec![]),
    };
    json!({"kind": k, "p1": bytes_json(&p1), "p2": bytes_json(&p2)})
}

pub struct LeafH {
    pub id: i64,
}

impl LeafH {
    fn call(&self, dev: &mut XDev, mut params: Parameters, resp: Option<ResponseUnit>) -> Result<()> {
        let script = own(|| {
            let k = dev.inv;
            dev.inv += 1;
            dev.calls.push(Call { leaf: self.id, query: resp.is_some(), got: vec![] });
            dev.scripts.get(k).cloned().unwrap_or_default()
        });
        for req in script.pulls.iter() {
            let t = match *req {
                1 => Some(lib(|| params.next_token())?),
                0 => lib(|| params.next_optional_token())?,
                _ => match lib(|| params.next_optional_token()) {
                    Ok(t) => t,
                    Err(_) => break, // a handler that does not propagate the read error: the lexical fault must still fail the unit
                },
            };
            if let Some(t) = t {
                own(|| dev.calls.last_mut().unwrap().got.push(tok_json(&t)));
                // parameter conversion is part of the allocation-free claim (C11): results are irrelevant here
                lib(|| {
                    let _ = u8::try_from(t);
                    let _ = i64::try_from(t);
                    let _ = f32::try_from(t);
                    let _ = f64::try_from(t);
                    let _ = bool::try_from(t);
                    let _ = <&[u8]>::try_from(t);
                    let _ = <&str>::try_from(t);
                    let _ = Arbitrary::try_from(t);
                    let _ = scpi::units::ElectricPotential::try_from(t);
                    let _ = scpi::parser::suffix::Amplitude::<scpi::units::ElectricPotential>::try_from(t);
                    let _ = scpi::parser::suffix::Db::<f32, scpi::units::ElectricPotential>::try_from(t);
                    let _ = scpi::units::Frequency::try_from(t);
                    let _ = RespFmt::try_from(t);
                    // list iterators do not advance past an error: stop at the first one
                    let _ = scpi::parser::expression::numeric_list::NumericList::try_from(t).map(|l| l.take(64).take_while(|x| x.is_ok()).count());
                    let _ = scpi::parser::expression::channel_list::ChannelList::try_from(t).map(|l| l.take(64).take_while(|x| x.is_ok()).count());
                });
            }
        }
        let failing = script.res != (0, 0);
        if let Some(mut r) = resp {
            if !failing || script.partial {
                lib(|| {
                    if !script.hdr.is_empty() {
                        // a multi-level response header is built level by level (the unit inserts the ':')
                        for part in script.hdr.split(|c| *c == b':') {
                            r.header(part);
                        }
                    }
                    for it in &script.items {
                        write_item(&mut r, it);
                    }
                });
            }
            if failing {
                return Err(own(|| mk_error(script.res.0, script.res.1)));
            }
            if script.items.is_empty() && script.hdr.is_empty() {
                // a query that answers nothing and never looks at the unit's status
                return Ok(());
            }
            lib(|| r.finish())
        } else if failing {
            Err(own(|| mk_error(script.res.0, script.res.1)))
        } else {
            Ok(())
        }
    }
}

/// How to write one response datum. The script gives the expected text; where a typed value formats to
/// exactly that text the typed formatter is used (integers, floats, quoted strings, blocks), so that
/// number/string/block formatting runs under the allocation counter and capacity faults.
enum Plan {
    Int(i64),
    Float(f64),
    Str(usize, usize),
    StrVal(Vec<u8>),
    Block(usize),
    Err(i64, i64),
    Enum(RespFmt),
    List(Vec<i32>),
    Bad,
    Raw,
}

/// a derived enum whose variants have numeric suffixes (response = short form + suffix)
#[derive(Clone, Copy, PartialEq, Debug, scpi_derive::ScpiEnum)]
pub enum RespFmt {
    #[scpi(mnemonic = b"BINary")]
    Binary,
    #[scpi(mnemonic = b"ASCii2")]
    Ascii2,
    #[scpi(mnemonic = b"L125")]
    L125,
    #[scpi(mnemonic = b"CHANnel12345")]
    Chan12345,
}

thread_local! {
    static ALT: Cell<u32> = const { Cell::new(0) };
}
fn alt() -> u32 {
    ALT.with(|a| {
        let v = a.get();
        a.set(v.wrapping_add(1));
        v
    })
}

fn plan_item(it: &[u8]) -> Plan {
    if it == [128u8] {
        return Plan::Bad;
    }
    let s = std::str::from_utf8(it).unwrap_or("");
    if let Ok(v) = s.parse::<i64>() {
        if format!("{v}").as_bytes() == it {
            return Plan::Int(v);
        }
    }
    if s.contains('.') {
        if let Ok(v) = s.parse::<f64>() {
            // decided independently of the library's formatter (Rust's own shortest printing)
            if format!("{v:?}").as_bytes() == it {
                return Plan::Float(v);
            }
        }
    }
    if it.len() >= 2 && it[0] == b'"' && it[it.len() - 1] == b'"' && !it[1..it.len() - 1].contains(&b'"') {
        return Plan::Str(1, it.len() - 1);
    }
    // a string whose content has double quotes (doubled in the text): the value is the text with each pair collapsed
    if it.len() >= 4 && it[0] == b'"' && it[it.len() - 1] == b'"' {
        let inner = &it[1..it.len() - 1];
        let mut val = vec![];
        let mut i = 0;
        let mut ok = true;
        while i < inner.len() {
            if inner[i] == b'"' {
                if i + 1 < inner.len() && inner[i + 1] == b'"' {
                    val.push(b'"');
                    i += 2;
                } else {
                    ok = false;
                    break;
                }
            } else {
                val.push(inner[i]);
                i += 1;
            }
        }
        if ok {
            return Plan::StrVal(val);
        }
    }
    if it.len() >= 3 && it[0] == b'#' && (b'1'..=b'9').contains(&it[1]) {
        let n = (it[1] - b'0') as usize;
        if it.len() >= 2 + n {
            if let Ok(len) = std::str::from_utf8(&it[2..2 + n]).unwrap_or("x").parse::<usize>() {
                if it.len() == 2 + n + len && format!("{len}").len() == n {
                    return Plan::Block(2 + n);
                }
            }
        }
    }
    // the response text of a derived enum (table written here, not derived from the library's formatter)
    for (text, v) in [(&b"BIN"[..], RespFmt::Binary), (b"ASC2", RespFmt::Ascii2), (b"L125", RespFmt::L125), (b"CHAN12345", RespFmt::Chan12345)] {
        if it == text {
            return Plan::Enum(v);
        }
    }
    // a comma-joined list of integers
    if it.contains(&b',') && !it.contains(&b'"') {
        let parts: Vec<Option<i32>> = s.split(',').map(|p| p.parse::<i32>().ok().filter(|v| format!("{v}") == p)).collect();
        if parts.len() >= 2 && parts.iter().all(|p| p.is_some()) {
            return Plan::List(parts.into_iter().map(|p| p.unwrap()).collect());
        }
    }
    // an error/event queue item `code,"message[;extended]"` (expected text assembled here, not by the library's formatter)
    if it.contains(&b',') {
        for (code, ext) in [(-113i64, 0i64), (-171, 1), (-350, 0), (7, 2), (-222, 1), (0, 0)] {
            let e = mk_error(code, ext);
            let mut want = format!("{code},\"").into_bytes();
            let dbl = |s: &[u8]| -> Vec<u8> { s.iter().flat_map(|c| if *c == b'"' { vec![b'"', b'"'] } else { vec![*c] }).collect() };
            want.extend_from_slice(&dbl(e.get_message()));
            if let Some(x) = e.get_extended() {
                want.push(b';');
                want.extend_from_slice(&dbl(x));
            }
            want.push(b'"');
            if want == it {
                return Plan::Err(code, ext);
            }
        }
    }
    Plan::Raw
}

/// The specification's text is ONE valid spelling of a value. Where the library chooses another spelling that is a valid
/// response element of the same kind and denotes exactly the same value (C09 / C20 judge spellings), the item is sent as
/// given, so that framing and capacity are still compared byte for byte; anything else -- the same text, a wrong value,
/// an invalid element, a formatter error -- goes through the typed formatter and is compared with the specification.
fn other_spelling<T: ResponseData>(v: &T, it: &[u8], same_value: impl Fn(&[u8]) -> bool) -> bool {
    own(|| {
        let mut probe: Vec<u8> = Vec::new();
        v.format_response_data(&mut probe).is_ok() && probe != it && same_value(&probe)
    })
}
fn block_payload(t: &[u8]) -> Option<&[u8]> {
    if t.len() < 3 || t[0] != b'#' || !(b'1'..=b'9').contains(&t[1]) {
        return None;
    }
    let n = (t[1] - b'0') as usize;
    let len = std::str::from_utf8(t.get(2..2 + n)?).ok()?.parse::<usize>().ok()?;
    if t.len() == 2 + n + len { Some(&t[2 + n..]) } else { None }
}

fn write_item(r: &mut ResponseUnit, it: &[u8]) {
    match own(|| plan_item(it)) {
        Plan::Int(v) => {
            let alt = other_spelling(&v, it, |p| {
                let d = p.strip_prefix(b"+").or(p.strip_prefix(b"-")).unwrap_or(p);
                !d.is_empty() && d.iter().all(|c| c.is_ascii_digit())
                    && std::str::from_utf8(p).ok().and_then(|t| t.trim_start_matches('+').parse::<i64>().ok()) == Some(v)
            });
            if alt { r.data(Character(it)) } else { r.data(v) }
        }
        Plan::Float(v) => {
            let alt = other_spelling(&v, it, |p| {
                crate::numeric::is_nrf(p) && std::str::from_utf8(p).ok().and_then(|t| t.parse::<f64>().ok()).map(|x| x.to_bits()) == Some(v.to_bits())
            });
            if alt { r.data(Character(it)) } else { r.data(v) }
        }
        Plan::Str(a, b) => r.data(&it[a..b]),
        Plan::StrVal(v) => r.data(&v[..]),
        Plan::Block(a) => {
            let alt = other_spelling(&Arbitrary(&it[a..]), it, |p| block_payload(p) == Some(&it[a..]));
            if alt { r.data(Character(it)) } else { r.data(Arbitrary(&it[a..])) }
        }
        Plan::Err(code, ext) => {
            let e = own(|| mk_error(code, ext));
            r.data(e)
        }
        Plan::Enum(v) => {
            use scpi::option::ScpiEnum;
            let alt = other_spelling(&v, it, |p| RespFmt::from_mnemonic(p) == Some(v));
            if alt { r.data(Character(it)) } else { r.data(v) }
        }
        Plan::List(v) => {
            // through the fixed-capacity list type when the first element is odd, else through the growable one
            if v[0] % 2 != 0 {
                let mut av = ArrayVec::<i32, 8>::new();
                for x in v.iter().take(8) {
                    av.push(*x);
                }
                r.data(av)
            } else {
                r.data(own(|| v.clone()))
            }
        }
        // a datum that has no response form: a string with non-ASCII bytes, an empty list (either list type)
        Plan::Bad => match alt() % 3 {
            0 => r.data(&b"caf\xc3\xa9"[..]),
            1 => r.data(ArrayVec::<i32, 4>::new()),
            _ => r.data(own(Vec::<u8>::new)),
        },
        Plan::Raw => r.data(Character(it)),
    };
}

impl Command<XDev> for LeafH {
    fn event(&self, dev: &mut XDev, _c: &mut Context, params: Parameters) -> Result<()> {
        own(|| self.call(dev, params, None))
    }
    fn query(&self, dev: &mut XDev, _c: &mut Context, params: Parameters, resp: ResponseUnit) -> Result<()> {
        own(|| self.call(dev, params, Some(resp)))
    }
}

/// Build a leaked `Node` tree from {"parent":[..],"kind":[..],"name":[[..]..],"dflt":[..]} (node 1 = root).
pub fn build_tree(t: &Value) -> &'static Node<'static, XDev> {
    let n = t["kind"].as_array().unwrap().len();
    fn build(t: &Value, id: usize, n: usize) -> Node<'static, XDev> {
        let name: &'static [u8] = Box::leak(bytes_from_json(&t["name"][id - 1]).into_boxed_slice());
        let dflt = t["dflt"][id - 1].as_bool().unwrap();
        if t["kind"][id - 1] == "leaf" {
            let h: &'static LeafH = Box::leak(Box::new(LeafH { id: id as i64 }));
            Node::Leaf { name, default: dflt, handler: h }
        } else {
            let kids: Vec<Node<'static, XDev>> = (2..=n)
                .filter(|c| t["parent"][c - 1].as_u64().unwrap() as usize == id)
                .map(|c| build(t, c, n))
                .collect();
            Node::Branch { name, default: dflt, sub: Box::leak(kids.into_boxed_slice()) }
        }
    }
    Box::leak(Box::new(build(t, 1, n)))
}

pub fn script_from_json(v: &Value) -> Script {
    Script {
        pulls: v["pulls"].as_array().map(|a| a.iter().map(|p| if p == "req" { 1 } else if p == "lopt" { 2 } else { 0 }).collect()).unwrap_or_default(),
        res: (v["res"]["code"].as_i64().unwrap_or(0), v["res"]["ext"].as_i64().unwrap_or(0)),
        hdr: bytes_from_json(&v["hdr"]),
        items: v["items"].as_array().map(|a| a.iter().map(bytes_from_json).collect()).unwrap_or_default(),
        partial: v["partial"].as_bool().unwrap_or(false),
    }
}

pub struct RunOut {
    pub ret: Option<Error>,
    pub out: Vec<u8>,
    pub allocs: u64,
    pub cap_len_ok: bool,
}

thread_local! {
    /// message-available flag the "transport" reports for the next run (C10/C16: must not influence framing)
    pub static MAV: Cell<bool> = const { Cell::new(false) };
}

fn run_arr<const N: usize>(tree: &Node<XDev>, bytes: &[u8], dev: &mut XDev) -> RunOut {
    let mut buf = ArrayVec::<u8, N>::new();
    let mut ctx = Context::default();
    ctx.mav = MAV.with(|m| m.get());
    ALLOCS.with(|a| a.set(0));
    let r = lib(|| tree.run(bytes, dev, &mut ctx, &mut buf));
    let allocs = ALLOCS.with(|a| a.get());
    RunOut { ret: r.err(), out: buf.to_vec(), allocs, cap_len_ok: buf.len() <= N }
}

macro_rules! cap_dispatch {
    ($cap:expr, $tree:expr, $bytes:expr, $dev:expr; $($n:literal)*) => {
        match $cap {
            $($n => run_arr::<$n>($tree, $bytes, $dev),)*
            _ => panic!("unsupported capacity {}", $cap),
        }
    };
}

pub fn run_case(tree: &Node<XDev>, bytes: &[u8], dev: &mut XDev, cap: i64) -> RunOut {
    if cap < 0 {
        let mut buf: Vec<u8> = Vec::new();
        let mut ctx = Context::default();
        ctx.mav = MAV.with(|m| m.get());
        let r = tree.run(bytes, dev, &mut ctx, &mut buf);
        return RunOut { ret: r.err(), out: buf, allocs: 0, cap_len_ok: true };
    }
    cap_dispatch!(cap, tree, bytes, dev;
        0 1 2 3 4 5 6 7 8 9 10 11 12 13 14 15 16 17 18 19 20 21 22 23 24 25 26 27 28 29 30 31 32
        33 34 35 36 37 38 39 40 41 42 43 44 45 46 47 48 49 50 51 52 53 54 55 56 57 58 59 60 61 62 63 64
        65 66 67 68 69 70 71 72 73 74 75 76 77 78 79 80 81 82 83 84 85 86 87 88 89 90 91 92 93 94 95 96
        128 256)
}

fn calls_json(calls: &[Call]) -> Value {
    Value::Array(
        calls
            .iter()
            .map(|c| json!({"leaf": c.leaf, "form": if c.query { "query" } else { "event" }, "got": c.got}))
            .collect(),
    )
}

fn calls_match(exp: &Value, act: &[Call], n: usize, skip_got_last: bool) -> bool {
    if act.len() != n {
        return false;
    }
    for (i, c) in act.iter().enumerate() {
        let e = &exp[i];
        if e["leaf"].as_i64() != Some(c.leaf) || (e["form"] == "query") != c.query {
            return false;
        }
        if skip_got_last && i + 1 == n {
            continue;
        }
        if e["got"].as_array().map(|a| a.as_slice()) != Some(c.got.as_slice()) {
            return false;
        }
    }
    true
}

/// cases: {"bytes","scripts","cap","calls","opt","err":{lo,hi,ext},"out","nunits"}
pub fn replay(args: &[String]) -> i32 {
    let tree_json: Value = serde_json::from_str(&std::fs::read_to_string(arg_value(args, "--tree").unwrap()).unwrap()).unwrap();
    let tree = build_tree(&tree_json);
    let cases = read_ndjson(&arg_value(args, "--cases").unwrap());
    let mut out = Out::new(&arg_value(args, "--out").unwrap_or("-".into()));
    let check_alloc = args.iter().any(|a| a == "--alloc");
    let history = args.iter().any(|a| a == "--history");
    let mut prev: Vec<u8> = b"ZZ:ZZ 1".to_vec();
    let (mut executed, mut bad, mut failing, mut queries, mut multi) = (0u64, 0u64, 0u64, 0u64, 0u64);
    let mut samples: Vec<Value> = vec![];
    for (ci, c) in cases.iter().enumerate() {
        let bytes = bytes_from_json(&c["bytes"]);
        let scripts: Vec<Script> = c["scripts"].as_array().unwrap().iter().map(script_from_json).collect();
        let cap = c["cap"].as_i64().unwrap();
        let exp_calls = &c["calls"];
        let ncalls = exp_calls.as_array().unwrap().len();
        let opt = c["opt"].as_bool().unwrap();
        let (lo, hi, eext) = (c["err"]["lo"].as_i64().unwrap(), c["err"]["hi"].as_i64().unwrap(), c["err"]["ext"].as_i64().unwrap());
        let exp_ok = lo == 0 && hi == 0 && eext == 0;     // (0, 0, ext > 0): a handler that returns Err(NoError) with extended text -- still a failure
        let exp_out = bytes_from_json(&c["out"]);
        if history {
            // C02: whatever message preceded, the next one starts again at the root
            let mut scratch = XDev::default();
            let _ = catch(std::panic::AssertUnwindSafe(|| run_case(tree, &prev, &mut scratch, -1)));
            prev = bytes.clone();
        }
        MAV.with(|m| m.set(ci % 2 == 1));
        let mut dev = XDev { scripts, ..Default::default() };
        let r = catch(std::panic::AssertUnwindSafe(|| run_case(tree, &bytes, &mut dev, cap)));
        executed += 1;
        failing += (!exp_ok) as u64;
        queries += (!exp_out.is_empty()) as u64;
        multi += (c["nunits"].as_i64().unwrap_or(1) > 1) as u64;
        if ci % 997 == 3 && samples.len() < 4 {
            samples.push(json!({"message": lossy(&bytes), "cap": cap, "expect": {"err": c["err"], "calls": ncalls, "out": lossy(&exp_out)}}));
        }
        let mut why: Vec<&str> = vec![];
        let got = match &r {
            Err(p) => {
                why.push("panic");
                json!({"panic": p})
            }
            Ok(ro) => {
                match (&ro.ret, exp_ok) {
                    (None, true) => {
                        if ro.out != exp_out {
                            why.push("out");
                        }
                    }
                    (Some(e), false) => {
                        let code = e.get_code() as i64;
                        if code < lo || code > hi || (eext >= 0 && ext_id(e) != eext) {
                            why.push("ret");
                        }
                    }
                    _ => why.push("ret"),
                }
                let full = calls_match(exp_calls, &dev.calls, ncalls, opt);
                let less = opt && ncalls > 0 && calls_match(exp_calls, &dev.calls, ncalls - 1, false);
                if !(full || less) {
                    why.push("calls");
                }
                let hook_ok = match &ro.ret {
                    None => dev.hook.is_empty(),
                    Some(e) => dev.hook.len() == 1 && dev.hook[0] == *e,
                };
                if !hook_ok {
                    why.push("hook");
                }
                if !ro.cap_len_ok || (cap >= 0 && ro.out.len() as i64 > cap) {
                    why.push("overrun");
                }
                if check_alloc && cap >= 0 && ro.allocs != 0 {
                    why.push("alloc");
                }
                json!({"ret": ro.ret.as_ref().map(err_json), "out": lossy(&ro.out), "calls": calls_json(&dev.calls),
                       "hook": dev.hook.iter().map(err_json).collect::<Vec<_>>(), "allocs": ro.allocs})
            }
        };
        if !why.is_empty() {
            bad += 1;
            out.put(&json!({"bad": why.join(","), "message": lossy(&bytes), "cap": cap, "case": c, "got": got}));
        }
    }
    out.put(&json!({"summary": true, "cases": cases.len(), "executed": executed, "bad": bad, "failing": failing,
                    "with_response": queries, "multi_unit": multi, "samples": samples}));
    out.finish();
    0
}
