//! C18: rows for unit-suffix conversions (uom quantities, Amplitude, Db), judged by Suffix.tla.

use crate::numeric::{dec_json, first_token, kind_of};
use crate::util::*;
use scpi::parser::suffix::{Amplitude, Db};
use scpi::parser::tokenizer::Token;
use scpi::units::uom::si::{f32 as q32, f64 as q64};
use serde_json::{json, Value};

const MULTS: [&str; 13] = ["", "EX", "PE", "T", "G", "MA", "K", "M", "U", "N", "P", "F", "A"];

fn units_of(q: &str) -> Vec<&'static str> {
    match q {
        "angle" => vec!["RAD", "DEG", "MNT", "SEC", "REV", "GON"],
        "capacitance" => vec!["F"],
        "charge" => vec!["C", "AH", "A.HR"],
        "current" => vec!["A"],
        "potential" => vec!["V"],
        "conductance" => vec!["SIE"],
        "resistance" => vec!["OHM"],
        "energy" => vec!["J", "WH", "W.HR", "EV"],
        "inductance" => vec!["H"],
        "power" => vec!["W"],
        "ratio" => vec!["PCT", "PPM"],
        "temperature" => vec!["K", "CEL", "FAR"],
        "time" => vec!["S", "MIN", "HR", "D", "ANN"],
        "frequency" => vec!["HZ"],
        _ => vec![],
    }
}

const QUANTITIES: [&str; 14] = ["angle", "capacitance", "charge", "current", "potential", "conductance", "resistance", "energy",
                                "inductance", "power", "ratio", "temperature", "time", "frequency"];

/// the first data element of `txt`, or the error code the lexer gives instead
fn tok_or_code(txt: &[u8]) -> std::result::Result<Token<'_>, i64> {
    match catch(std::panic::AssertUnwindSafe(|| scpi::parser::tokenizer::Tokenizer::new_params(txt).next())) {
        Ok(Some(Ok(t))) if t.is_data() => Ok(t),
        Ok(Some(Err(e))) => Err(scpi::error::Error::from(e).get_code() as i64),
        Ok(_) => Err(-1),
        Err(_) => Err(99999), // the lexer panicked
    }
}
/// a row for a literal the lexer itself refuses (a defined suffix must get through it too)
fn lexfail_row(t: &str, q: &str, w: u32, lit: &str, suf: &str, txt: &str, code: i64) -> Value {
    let mut o = blank();
    o["code"] = json!(code);
    json!({"t": t, "q": q, "w": w, "kind": if suf.is_empty() { "num" } else { "numsuf" }, "lit": bytes_json(lit.as_bytes()),
           "suf": bytes_json(suf.as_bytes()), "src": txt, "upok": false, "obs": o, "lexfail": true})
}

fn blank() -> Value {
    json!({"k": "err", "code": 0, "cls": "", "v": dec_json("0"), "num": dec_json("0")})
}

/// candidate suffixes for a quantity: the general rule's combinations, and negatives
fn candidates(q: &str, rng: &mut Rng, thorough: bool) -> Vec<String> {
    let mut v: Vec<String> = vec![String::new()];
    for u in units_of(q) {
        for m in MULTS {
            v.push(format!("{m}{u}"));
        }
        // single edits that leave the rule
        v.push(format!("{u}S"));
        v.push(format!("{u}Z"));
        v.push(format!("X{u}"));
        if u.len() > 1 {
            v.push(u[..u.len() - 1].to_string());
            v.push(u[1..].to_string());
        }
        v.push(format!("{u}PK"));
        v.push(format!("{u}RMS"));
        v.push(format!("DB{u}"));
    }
    for other in QUANTITIES {
        if other != q {
            for u in units_of(other) {
                v.push(u.to_string());
                v.push(format!("M{u}"));
                v.push(format!("K{u}"));
            }
        }
    }
    for s in ["K", "M", "MA", "U", "POTATO", "VOLT", "OHMS", "SECOND", "HERTZ", "DB", "DBM", "PK", "RMS", "%", "/S", "V/S", "M.S", "S-1"] {
        v.push(s.to_string());
    }
    for _ in 0..(if thorough { 2000 } else { 25 }) {
        let n = 1 + rng.below(12) as usize;
        v.push((0..n).map(|_| *rng.pick(b"ABCDEFGHJKMNOPRSTUVWXZ./-") as char).collect());
    }
    v.sort();
    v.dedup();
    // the lexer only lets suffixes through that start with a letter or '/'
    v.retain(|s| s.is_empty() || s.as_bytes()[0].is_ascii_alphabetic() || s.as_bytes()[0] == b'/');
    v.retain(|s| s.len() <= 12);
    v
}

fn cases(s: &str) -> Vec<String> {
    let lower = s.to_ascii_lowercase();
    let mixed: String = s.chars().enumerate().map(|(i, c)| if i % 2 == 0 { c.to_ascii_lowercase() } else { c.to_ascii_uppercase() }).collect();
    let mut v = vec![s.to_ascii_uppercase(), lower, mixed];
    v.dedup();
    v
}

macro_rules! unit_rows {
    ($qname:expr, $w:expr, $ty:ty, $lits:expr, $cands:expr, $out:expr) => {{
        for suf in $cands.iter() {
            let up_ok = {
                let txt = format!("1 {}", suf.to_ascii_uppercase());
                first_token(txt.as_bytes()).map_or(false, |t| <$ty>::try_from(t).is_ok())
            };
            for sp in cases(suf) {
                for lit in $lits.iter() {
                    let txt = if sp.is_empty() { lit.to_string() } else { format!("{lit} {sp}") };
                    let t = match tok_or_code(txt.as_bytes()) {
                        Ok(t) => t,
                        Err(code) => {
                            $out.put(&lexfail_row("unit", $qname, $w, lit, &sp, &txt, code));
                            continue;
                        }
                    };
                    let (kind, _) = kind_of(&t);
                    let r = catch(std::panic::AssertUnwindSafe(|| <$ty>::try_from(t)));
                    let mut o = blank();
                    match r {
                        Err(_) => o["code"] = json!(99999),
                        Ok(Err(e)) => o["code"] = json!(e.get_code()),
                        Ok(Ok(qv)) => {
                            o["k"] = json!("ok");
                            o["v"] = dec_json(&format!("{}", qv.value));
                        }
                    }
                    let up_ok_row = if sp.is_empty() { o["k"] == "ok" } else { up_ok };
                    $out.put(&json!({"t": "unit", "q": $qname, "w": $w, "kind": kind, "lit": bytes_json(lit.as_bytes()), "suf": bytes_json(sp.as_bytes()),
                                     "src": txt, "upok": up_ok_row, "obs": o}));
                }
            }
        }
    }};
}

fn nonnumeric_rows(out: &mut Out) {
    for lit in [&b"ABC"[..], b"'1 V'", b"#11V", b"(1)", b"#HFF", b"MAX"] {
        if let Some(t) = first_token(lit) {
            let (kind, _) = kind_of(&t);
            let r = catch(std::panic::AssertUnwindSafe(|| q32::ElectricPotential::try_from(t)));
            let mut o = blank();
            match r {
                Err(_) => o["code"] = json!(99999),
                Ok(Err(e)) => o["code"] = json!(e.get_code()),
                Ok(Ok(qv)) => {
                    o["k"] = json!("ok");
                    o["v"] = dec_json(&format!("{}", qv.value));
                }
            }
            out.put(&json!({"t": "unit", "q": "potential", "w": 32, "kind": kind, "lit": bytes_json(lit), "suf": [], "src": lossy(lit), "upok": false, "obs": o}));
        }
    }
}

macro_rules! amp_rows {
    ($qname:expr, $ty:ty, $unit:expr, $out:expr) => {{
        // (bases S / MS / K / P with an empty tail: suffixes that are proper tails of a specifier, shorter than it)
        for base in ["", $unit, &format!("M{}", $unit), &format!("K{}", $unit), "X", "S", "MS", "K", "P", "k"] {
            for tail in ["", "PK", "PP", "RMS", "pk", "Pp", "rms", "PKK", "RM"] {
                let suf = format!("{base}{tail}");
                for lit in ["1", "2.5", "-4e3"] {
                    let txt = if suf.is_empty() { lit.to_string() } else { format!("{lit} {suf}") };
                    let t = match tok_or_code(txt.as_bytes()) {
                        Ok(t) => t,
                        Err(code) => {
                            $out.put(&lexfail_row("amp", $qname, 32, lit, &suf, &txt, code));
                            continue;
                        }
                    };
                    let (kind, _) = kind_of(&t);
                    let conv = |t: Token| -> (Value, bool) {
                        let r = catch(std::panic::AssertUnwindSafe(|| Amplitude::<$ty>::try_from(t)));
                        let mut o = blank();
                        match r {
                            Err(_) => o["code"] = json!(99999),
                            Ok(Err(e)) => o["code"] = json!(e.get_code()),
                            Ok(Ok(a)) => {
                                let (cls, qv) = match a {
                                    Amplitude::None(q) => ("none", q),
                                    Amplitude::Peak(q) => ("pk", q),
                                    Amplitude::PeakToPeak(q) => ("pp", q),
                                    Amplitude::Rms(q) => ("rms", q),
                                };
                                o["k"] = json!("ok");
                                o["cls"] = json!(cls);
                                o["v"] = dec_json(&format!("{}", qv.value));
                            }
                        }
                        let ok = o["k"] == "ok";
                        (o, ok)
                    };
                    let (o, _) = conv(t);
                    let up = format!("{lit} {}", suf.to_ascii_uppercase());
                    let upok = if suf.is_empty() { o["k"] == "ok" } else { first_token(up.as_bytes()).map_or(false, |t| conv(t).1) };
                    $out.put(&json!({"t": "amp", "q": $qname, "w": 32, "kind": kind, "lit": bytes_json(lit.as_bytes()), "suf": bytes_json(suf.as_bytes()),
                                     "src": txt, "upok": upok, "obs": o}));
                }
            }
        }
    }};
}

macro_rules! db_rows {
    ($qname:expr, $ty:ty, $unit:expr, $out:expr) => {{
        let u: &str = $unit;
        let mut sufs: Vec<String> = vec!["".into(), u.into(), format!("M{u}"), format!("DB{u}"), format!("DBM{u}"), format!("DBU{u}"), format!("DBK{u}"),
                                         format!("db{}", u.to_ascii_lowercase()), "DB".into(), "DBM".into(), "DBX".into(), format!("DB{u}S"), format!("D{u}")];
        sufs.dedup();
        for suf in sufs {
            for lit in ["1", "-20", "3.5"] {
                let txt = if suf.is_empty() { lit.to_string() } else { format!("{lit} {suf}") };
                let t = match tok_or_code(txt.as_bytes()) {
                    Ok(t) => t,
                    Err(code) => {
                        $out.put(&lexfail_row("db", $qname, 32, lit, &suf, &txt, code));
                        continue;
                    }
                };
                let (kind, _) = kind_of(&t);
                let conv = |t: Token| -> Value {
                    let r = catch(std::panic::AssertUnwindSafe(|| Db::<f32, $ty>::try_from(t)));
                    let mut o = blank();
                    match r {
                        Err(_) => o["code"] = json!(99999),
                        Ok(Err(e)) => o["code"] = json!(e.get_code()),
                        Ok(Ok(d)) => {
                            o["k"] = json!("ok");
                            match d {
                                Db::None(n) => {
                                    o["cls"] = json!("none");
                                    o["num"] = dec_json(&format!("{n}"));
                                }
                                Db::Linear(q) => {
                                    o["cls"] = json!("lin");
                                    o["v"] = dec_json(&format!("{}", q.value));
                                }
                                Db::Logarithmic(n, q) => {
                                    o["cls"] = json!("log");
                                    o["num"] = dec_json(&format!("{n}"));
                                    o["v"] = dec_json(&format!("{}", q.value));
                                }
                            }
                        }
                    }
                    o
                };
                let o = conv(t);
                let up = format!("{lit} {}", suf.to_ascii_uppercase());
                let upok = if suf.is_empty() { o["k"] == "ok" } else { first_token(up.as_bytes()).map_or(false, |t| conv(t)["k"] == "ok") };
                $out.put(&json!({"t": "db", "q": $qname, "w": 32, "kind": kind, "lit": bytes_json(lit.as_bytes()), "suf": bytes_json(suf.as_bytes()),
                                 "src": txt, "upok": upok, "obs": o}));
            }
        }
    }};
}

pub fn rows(args: &[String]) -> i32 {
    let seed = arg_u64(args, "--seed", 1);
    let thorough = arg_value(args, "--tier").as_deref() == Some("thorough");
    let mut out = Out::new(&arg_value(args, "--out").unwrap_or("-".into()));
    let mut rng = Rng::new(seed ^ 0xC18);
    // (the first two go to the f64 quantities as well; plain integers beyond the i32 / i64 range are ordinary decimal literals)
    let pad256 = format!("{}1", "0".repeat(255));          // 256 digits, value 1
    let lits: Vec<&str> = if thorough { vec!["1", "2.5", "-4e3", "1e-3", "0", "+12.75E+2", "3000000000", "-123456789012345678901", "5.", "-.5", "1E000003", &pad256] }
                          else { vec!["1", "2.5", "-4e3", "1e-3", "0", "3000000000", "123456789012345678901", "-.5", "1E000003", &pad256] };
    macro_rules! both {
        ($q:expr, $name:ident) => {{
            let c = candidates($q, &mut rng, thorough);
            unit_rows!($q, 32, q32::$name, lits, c, out);
            unit_rows!($q, 64, q64::$name, lits[..2], c, out);
        }};
    }
    both!("angle", Angle);
    both!("capacitance", Capacitance);
    both!("charge", ElectricCharge);
    both!("current", ElectricCurrent);
    both!("potential", ElectricPotential);
    both!("conductance", ElectricalConductance);
    both!("resistance", ElectricalResistance);
    both!("energy", Energy);
    both!("inductance", Inductance);
    both!("power", Power);
    both!("ratio", Ratio);
    both!("temperature", ThermodynamicTemperature);
    both!("time", Time);
    both!("frequency", Frequency);
    nonnumeric_rows(&mut out);
    amp_rows!("potential", q32::ElectricPotential, "V", out);
    amp_rows!("current", q32::ElectricCurrent, "A", out);
    amp_rows!("power", q32::Power, "W", out);
    db_rows!("potential", q32::ElectricPotential, "V", out);
    db_rows!("power", q32::Power, "W", out);
    db_rows!("current", q32::ElectricCurrent, "A", out);
    db_rows!("ratio", q32::Ratio, "", out);
    out.finish();
    0
}
