//! C03: mnemonic matching. Replays TLC-enumerated candidates; records directed/random rows.

use crate::util::*;
use scpi::parser::tokenizer::Token;
use scpi::parser::{mnemonic_compare, mnemonic_match};
use serde_json::{json, Value};

fn b(x: bool) -> i64 {
    x as i64
}

fn observe(def: &[u8], cand: &[u8]) -> (i64, i64, i64, i64) {
    (
        b(mnemonic_compare(def, cand)),
        b(mnemonic_match(def, cand)),
        b(Token::ProgramMnemonic(cand).match_program_header(def)),
        b(Token::CharacterProgramData(cand).match_program_header(def)),
    )
}

/// cases: {"cand":[..], "cmp":[0/1 per def], "mat":[0/1 per def]}; --defs is a JSON array of byte arrays.
pub fn replay(args: &[String]) -> i32 {
    let defs: Vec<Vec<u8>> = serde_json::from_str::<Value>(&arg_value(args, "--defs").unwrap())
        .unwrap()
        .as_array()
        .unwrap()
        .iter()
        .map(bytes_from_json)
        .collect();
    let cases = read_ndjson(&arg_value(args, "--cases").unwrap());
    let mut out = Out::new(&arg_value(args, "--out").unwrap_or("-".into()));
    let mut pairs = 0u64;
    let mut positives = 0u64;
    let mut bad = 0u64;
    for c in &cases {
        let cand = bytes_from_json(&c["cand"]);
        for (k, def) in defs.iter().enumerate() {
            pairs += 1;
            let ecmp = c["cmp"][k].as_i64().unwrap();
            let emat = c["mat"][k].as_i64().unwrap();
            positives += (emat == 1) as u64;
            let r = catch(|| observe(def, &cand));
            match r {
                Ok((cmp, mat, hdr, chr)) => {
                    if (ecmp >= 0 && cmp != ecmp) || mat != emat || hdr != emat || chr != emat {
                        bad += 1;
                        out.put(&json!({"bad": "mismatch", "def": lossy(def), "cand": lossy(&cand),
                                        "expect": {"compare": ecmp, "match": emat},
                                        "got": {"compare": cmp, "match": mat, "hdr": hdr, "chr": chr}}));
                    }
                }
                Err(p) => {
                    bad += 1;
                    out.put(&json!({"bad": "panic", "def": lossy(def), "cand": lossy(&cand), "msg": p}));
                }
            }
        }
    }
    out.put(&json!({"summary": true, "cases": cases.len(), "pairs": pairs, "positives": positives, "bad": bad}));
    out.finish();
    0
}

fn case_variants(s: &[u8]) -> Vec<Vec<u8>> {
    let up = s.to_ascii_uppercase();
    let lo = s.to_ascii_lowercase();
    let alt: Vec<u8> = s
        .iter()
        .enumerate()
        .map(|(i, c)| if i % 2 == 0 { c.to_ascii_lowercase() } else { c.to_ascii_uppercase() })
        .collect();
    vec![s.to_vec(), up, lo, alt]
}

/// SCPI-shaped definitions: short form 1..4 upper-case letters, lower-case tail 0..8, suffix.
fn definitions(rng: &mut Rng, extra: usize) -> Vec<Vec<u8>> {
    let mut defs = vec![];
    let shorts: [&[u8]; 5] = [b"T", b"TR", b"TRI", b"TRIG", b"OUTP"];
    let tails: [&[u8]; 5] = [b"", b"g", b"ge", b"ger", b"uttttttt"];
    let sufs: [&[u8]; 5] = [b"", b"1", b"2", b"10", b"125"];
    for s in shorts {
        for t in tails {
            for x in sufs {
                let mut d = s.to_vec();
                d.extend_from_slice(t);
                d.extend_from_slice(x);
                if d.len() <= 12 {
                    defs.push(d);
                }
            }
        }
    }
    // every decimal digit as a suffix, alone, after a 1 and before a 0
    for d in b'0'..=b'9' {
        for pat in [vec![d], vec![b'1', d], vec![d, b'0'], vec![d, d]] {
            for stem in [&b"TRIGger"[..], b"CH", b"L"] {
                let mut x = stem.to_vec();
                x.extend_from_slice(&pat);
                defs.push(x);
            }
        }
    }
    // digits and underscores inside the upper-case (short-form) part or the lower-case tail
    for d in [&b"P2Pmode"[..], b"CH4Level", b"MY_Node", b"A1B", b"IQ2rate3", b"T_1", b"SLOT_Cfg12"] {
        defs.push(d.to_vec());
    }
    for d in [&b"MINimum"[..], b"MAXimum", b"DEFault", b"UP", b"DOWN", b"INFinity", b"NINFinity", b"NAN", b"ONCE", b"L125", b"ASCii2", b"X"] {
        defs.push(d.to_vec());
    }
    for _ in 0..extra {
        let ns = 1 + rng.below(4) as usize;
        let nt = rng.below((12 - ns) as u64 - 2) as usize;
        let mut d: Vec<u8> = (0..ns).map(|_| b'A' + rng.below(26) as u8).collect();
        d.extend((0..nt).map(|_| b'a' + rng.below(26) as u8));
        match rng.below(4) {
            0 => d.extend_from_slice(b"1"),
            1 => d.extend_from_slice(format!("{}", 2 + rng.below(40)).as_bytes()),
            _ => {}
        }
        d.truncate(12);
        defs.push(d);
    }
    defs
}

pub fn rows(args: &[String]) -> i32 {
    let seed = arg_u64(args, "--seed", 1);
    let thorough = arg_value(args, "--tier").as_deref() == Some("thorough");
    let mut out = Out::new(&arg_value(args, "--out").unwrap_or("-".into()));
    let mut rng = Rng::new(seed ^ 0xC03);
    let defs = definitions(&mut rng, if thorough { 300 } else { 40 });
    let sufs: [&[u8]; 9] = [b"", b"0", b"1", b"01", b"2", b"10", b"12", b"125", b"001"];
    let foreign: [u8; 6] = [b'x', b'Z', b'7', b'_', b'e', b'G'];
    let mut emit = |def: &[u8], cand: &[u8], out: &mut Out| {
        if cand.len() > 14 {
            return;
        }
        let r = catch(|| observe(def, cand));
        match r {
            Ok((cmp, mat, hdr, chr)) => out.put(&json!({"def": bytes_json(def), "cand": bytes_json(cand),
                "compare": cmp, "match": mat, "hdr": hdr, "chr": chr})),
            Err(_) => out.put(&json!({"def": bytes_json(def), "cand": bytes_json(cand),
                "compare": -1, "match": -1, "hdr": -1, "chr": -1})),
        }
    };
    for def in &defs {
        // alphabetic part of the definition (for prefixing)
        let t = def.iter().rev().take_while(|c| c.is_ascii_digit()).count();
        let alpha = if t == def.len() { &def[..] } else { &def[..def.len() - t] };
        for n in 0..=alpha.len() {
            for v in case_variants(&alpha[..n]) {
                for x in sufs {
                    let mut c = v.clone();
                    c.extend_from_slice(x);
                    emit(def, &c, &mut out);
                }
            }
        }
        // single-edit neighbours of short form, long form and the definition as written
        let short_len = alpha.iter().take_while(|c| c.is_ascii_uppercase() || c.is_ascii_digit()).count();
        // the definition's own suffix with every digit appended / prepended / substituted, and every single digit
        let own: &[u8] = if t == def.len() { b"" } else { &def[def.len() - t..] };
        for stem in [&alpha[..short_len.min(alpha.len())], alpha] {
            for v in [stem.to_vec(), stem.to_ascii_lowercase()] {
                for d in b'0'..=b'9' {
                    let mut variants: Vec<Vec<u8>> = vec![vec![d]];
                    let mut a = own.to_vec();
                    a.push(d);
                    variants.push(a);
                    let mut b = vec![d];
                    b.extend_from_slice(own);
                    variants.push(b);
                    if !own.is_empty() {
                        let mut c = own.to_vec();
                        let k = c.len() - 1;
                        c[k] = d;
                        variants.push(c);
                    }
                    for x in variants {
                        let mut c = v.clone();
                        c.extend_from_slice(&x);
                        emit(def, &c, &mut out);
                    }
                }
            }
        }
        for base in [&alpha[..short_len], alpha, &def[..]] {
            for i in 0..=base.len() {
                for f in foreign {
                    let mut ins = base.to_vec();
                    ins.insert(i, f);
                    emit(def, &ins, &mut out);
                    if i < base.len() {
                        let mut rep = base.to_vec();
                        rep[i] = f;
                        emit(def, &rep, &mut out);
                    }
                }
                if i < base.len() {
                    let mut del = base.to_vec();
                    del.remove(i);
                    emit(def, &del, &mut out);
                }
            }
        }
    }
    // random pairs
    let nrand = if thorough { 100_000 } else { 4_000 };
    let alphabet: &[u8] = b"ABab12_TRIGger0";
    for _ in 0..nrand {
        let def = rng.pick(&defs).clone();
        let n = rng.below(13) as usize;
        let cand: Vec<u8> = if rng.chance(1, 2) {
            (0..n).map(|_| *rng.pick(alphabet)).collect()
        } else {
            // mutate the definition
            let mut c = def.clone();
            for _ in 0..rng.below(3) {
                if !c.is_empty() {
                    let i = rng.below(c.len() as u64) as usize;
                    match rng.below(3) {
                        0 => c[i] = *rng.pick(alphabet),
                        1 => {
                            c.remove(i);
                        }
                        _ => c.insert(i, *rng.pick(alphabet)),
                    }
                }
            }
            if rng.chance(1, 2) {
                c.make_ascii_lowercase();
            }
            c
        };
        emit(&def, &cand, &mut out);
    }
    out.finish();
    0
}
