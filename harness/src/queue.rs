//! C12: error queue. Edge replay (spec -> impl) and random traces (impl -> spec).

use crate::util::*;
use arrayvec::ArrayVec;
use scpi::error::{Error, ErrorQueue};
use serde_json::{json, Value};
use std::collections::{HashMap, VecDeque};

pub trait AnyQueue {
    fn q(&mut self) -> &mut dyn ErrorQueue;
    fn contents(&self) -> Vec<Error>;
    fn boxed_clone(&self) -> Box<dyn AnyQueue>;
}

impl<const N: usize> AnyQueue for ArrayVec<Error, N> {
    fn q(&mut self) -> &mut dyn ErrorQueue {
        self
    }
    fn contents(&self) -> Vec<Error> {
        self.iter().copied().collect()
    }
    fn boxed_clone(&self) -> Box<dyn AnyQueue> {
        Box::new(self.clone())
    }
}

impl AnyQueue for Vec<Error> {
    fn q(&mut self) -> &mut dyn ErrorQueue {
        self
    }
    fn contents(&self) -> Vec<Error> {
        self.clone()
    }
    fn boxed_clone(&self) -> Box<dyn AnyQueue> {
        Box::new(self.clone())
    }
}

pub const CAPS: [usize; 9] = [0, 1, 2, 3, 4, 5, 8, 16, 32];

pub fn new_queue(cap: usize) -> Box<dyn AnyQueue> {
    match cap {
        0 => Box::new(Vec::<Error>::new()),
        1 => Box::new(ArrayVec::<Error, 1>::new()),
        2 => Box::new(ArrayVec::<Error, 2>::new()),
        3 => Box::new(ArrayVec::<Error, 3>::new()),
        4 => Box::new(ArrayVec::<Error, 4>::new()),
        5 => Box::new(ArrayVec::<Error, 5>::new()),
        8 => Box::new(ArrayVec::<Error, 8>::new()),
        16 => Box::new(ArrayVec::<Error, 16>::new()),
        32 => Box::new(ArrayVec::<Error, 32>::new()),
        _ => panic!("unsupported capacity {cap}"),
    }
}

fn project(q: &dyn AnyQueue) -> Value {
    Value::Array(q.contents().iter().map(err_json).collect())
}

/// Perform one operation on the real queue; returns the response in the spec's shape.
pub fn apply(q: &mut dyn AnyQueue, op: &str, arg: &Value) -> Value {
    match op {
        "push" => {
            q.q().push_back_error(err_from_json(&arg[0]));
            json!([])
        }
        "pop" => match q.q().pop_front_error() {
            Some(e) => json!([err_json(&e)]),
            None => json!([]),
        },
        "clear" => {
            q.q().clear_errors();
            json!([])
        }
        "len" => json!([q.q().num_errors() as i64]),
        "empty" => json!([if q.q().is_empty() { 1 } else { 0 }]),
        _ => panic!("unknown op {op}"),
    }
}

/// Replay TLC-emitted edges. Own BFS from the empty queue: every concrete state is reached
/// through real calls only.
pub fn replay_edges(args: &[String]) -> i32 {
    let edges = read_ndjson(&arg_value(args, "--edges").expect("--edges"));
    let mut out = Out::new(&arg_value(args, "--out").unwrap_or("-".into()));
    let mut by_cap: HashMap<i64, Vec<&Value>> = HashMap::new();
    for e in &edges {
        by_cap.entry(e["cap"].as_i64().unwrap()).or_default().push(e);
    }
    let mut executed = 0u64;
    let mut bad = 0u64;
    let mut unreached = 0u64;
    for (cap, es) in by_cap {
        let mut by_pre: HashMap<String, Vec<&Value>> = HashMap::new();
        for e in &es {
            by_pre.entry(e["pre"].to_string()).or_default().push(e);
        }
        let mut snaps: HashMap<String, Box<dyn AnyQueue>> = HashMap::new();
        let mut work = VecDeque::new();
        let init = new_queue(cap as usize);
        let k0 = project(init.as_ref()).to_string();
        snaps.insert(k0.clone(), init);
        work.push_back(k0);
        let mut done = 0usize;
        while let Some(k) = work.pop_front() {
            let Some(list) = by_pre.get(&k) else { continue };
            for e in list {
                done += 1;
                let mut q = snaps[&k].boxed_clone();
                let op = e["op"].as_str().unwrap().to_string();
                let arg = e["arg"].clone();
                let r = catch(std::panic::AssertUnwindSafe(|| {
                    let resp = apply(q.as_mut(), &op, &arg);
                    (resp, q)
                }));
                executed += 1;
                match r {
                    Err(p) => {
                        bad += 1;
                        out.put(&json!({"bad": "panic", "msg": p, "edge": e}));
                    }
                    Ok((resp, q)) => {
                        let post = project(q.as_ref());
                        if resp != e["resp"] || post != e["post"] {
                            bad += 1;
                            out.put(&json!({"bad": "mismatch", "edge": e,
                                            "got": {"resp": resp, "post": post}}));
                        } else {
                            let pk = post.to_string();
                            if !snaps.contains_key(&pk) {
                                snaps.insert(pk.clone(), q);
                                work.push_back(pk);
                            }
                        }
                    }
                }
            }
        }
        if done != es.len() {
            unreached += (es.len() - done) as u64;
        }
    }
    out.put(&json!({"summary": true, "edges": edges.len(), "executed": executed,
                    "bad": bad, "unreached": unreached}));
    out.finish();
    0
}

/// Random histories on every provided queue implementation, logged for TraceErrQueue.
pub fn record_trace(args: &[String]) -> i32 {
    let seed = arg_u64(args, "--seed", 1);
    let ops = arg_u64(args, "--ops", 2000);
    let mut out = Out::new(&arg_value(args, "--out").unwrap_or("-".into()));
    let mut rng = Rng::new(seed);
    let codes: [i64; 16] = [-100, -113, -222, -350, -400, -800, 1, 7, 32767, -32768, -300, -225, 0, 0, -42, -99];
    for cap in CAPS {
        let mut q = new_queue(cap);
        out.put(&json!({"ev": "reset", "cap": cap}));
        // phases bias towards filling then draining so that overflow and "room again" both occur
        for i in 0..ops {
            let phase = (i / 37) % 3;
            let r = rng.below(100);
            let op = match phase {
                0 => {
                    if r < 70 { "push" } else if r < 80 { "pop" } else if r < 90 { "len" } else { "empty" }
                }
                1 => {
                    if r < 30 { "push" } else if r < 75 { "pop" } else if r < 88 { "len" } else { "empty" }
                }
                _ => {
                    if r < 45 { "push" } else if r < 85 { "pop" } else if r < 88 { "clear" } else if r < 94 { "len" } else { "empty" }
                }
            };
            let arg = if op == "push" {
                json!([{"code": *rng.pick(&codes), "ext": rng.below(3) as i64}])
            } else {
                json!([])
            };
            let resp = apply(q.as_mut(), op, &arg);
            out.put(&json!({"ev": "op", "op": op, "arg": arg, "resp": resp,
                            "post": project(q.as_ref())}));
        }
    }
    out.finish();
    0
}
