//! C14: rows for every 16-bit error number and for directed faulty messages.

use crate::util::*;
use scpi::error::{Error, ErrorCode, Result};
use scpi::tree::prelude::*;
use scpi::{Leaf, Root};
use serde_json::json;

struct D;
impl Device for D {
    fn handle_error(&mut self, _e: Error) {}
}

/// `T <kind-specific parameter>` handlers used to provoke conversion faults.
struct PU8;
impl Command<D> for PU8 {
    fn event(&self, _d: &mut D, _c: &mut Context, mut p: Parameters) -> Result<()> {
        let _: u8 = p.next_data()?;
        Ok(())
    }
}
struct PI16;
impl Command<D> for PI16 {
    fn event(&self, _d: &mut D, _c: &mut Context, mut p: Parameters) -> Result<()> {
        let _: i16 = p.next_data()?;
        Ok(())
    }
}
struct PF32;
impl Command<D> for PF32 {
    fn event(&self, _d: &mut D, _c: &mut Context, mut p: Parameters) -> Result<()> {
        let _: f32 = p.next_data()?;
        Ok(())
    }
}
struct PBool;
impl Command<D> for PBool {
    fn event(&self, _d: &mut D, _c: &mut Context, mut p: Parameters) -> Result<()> {
        let _: bool = p.next_data()?;
        Ok(())
    }
}
struct PStr;
impl Command<D> for PStr {
    fn event(&self, _d: &mut D, _c: &mut Context, mut p: Parameters) -> Result<()> {
        let _: &[u8] = p.next_data()?;
        Ok(())
    }
}
#[derive(Copy, Clone, PartialEq, Debug, scpi_derive::ScpiEnum)]
enum Mode {
    #[scpi(mnemonic = b"FAST")]
    Fast,
    #[scpi(mnemonic = b"SLOW")]
    Slow,
}
struct PEnum;
impl Command<D> for PEnum {
    fn event(&self, _d: &mut D, _c: &mut Context, mut p: Parameters) -> Result<()> {
        let _: Mode = p.next_data()?;
        Ok(())
    }
}
/// `CHn (@spec)`: converts the first channel spec to an unsigned n-tuple
struct PChan(usize);
impl Command<D> for PChan {
    fn event(&self, _d: &mut D, _c: &mut Context, mut p: Parameters) -> Result<()> {
        use scpi::parser::expression::channel_list::{ChannelList, Token as CT};
        let list: ChannelList = p.next_data()?;
        for item in list {
            if let CT::ChannelSpec(sp) = item? {
                match self.0 {
                    1 => { let _: usize = sp.try_into()?; }
                    2 => { let _: (usize, usize) = sp.try_into()?; }
                    _ => { let _: (usize, usize, usize) = sp.try_into()?; }
                }
            }
        }
        Ok(())
    }
}
struct QBig;
impl Command<D> for QBig {
    fn query(&self, _d: &mut D, _c: &mut Context, _p: Parameters, mut r: ResponseUnit) -> Result<()> {
        r.data(&b"0123456789abcdef0123456789abcdef"[..]).finish()
    }
}

const TREE: Node<D> = Root![
    Leaf!(b"U8" => &PU8),
    Leaf!(b"I16" => &PI16),
    Leaf!(b"F32" => &PF32),
    Leaf!(b"BOOL" => &PBool),
    Leaf!(b"STR" => &PStr),
    Leaf!(b"ENUM" => &PEnum),
    Leaf!(b"CH1" => &PChan(1)),
    Leaf!(b"CH2" => &PChan(2)),
    Leaf!(b"CH3" => &PChan(3)),
    Leaf!(b"BIG" => &QBig)
];

pub fn rows(args: &[String]) -> i32 {
    let mut out = Out::new(&arg_value(args, "--out").unwrap_or("-".into()));
    for c in i16::MIN..=i16::MAX {
        let custom = ErrorCode::Custom(c, b"x");
        let looked = ErrorCode::get_error(c);
        // the mask of whatever object carries this code: the standard variant if there is one, else custom
        let carrier = looked.unwrap_or(custom);
        out.put(&json!({"t": "code", "code": c, "mask": carrier.esr_mask(), "emask": Error::new(custom).esr_mask(),
                        "found": looked.is_some(), "lcode": looked.map(|e| e.get_code()).unwrap_or(0)}));
    }
    let faults: &[(&str, &[u8])] = &[
        ("syntax", b"U8 $"), ("syntax", b"U8 1,,2"), ("syntax", b"STR 'abc"), ("syntax", b"U8 #"), ("syntax", b"U8 #H"),
        ("syntax", b"U8 1 2"), ("syntax", b"STR \"a\"b"), ("syntax", b"U8 #29hello"), ("syntax", b"U8 (1"),
        ("syntax", b"U8 1.e"), ("syntax", b"U8 1e"), ("syntax", b"U8 \xff"), ("syntax", b"STR '\xff'"),
        ("syntax", b"U8 ABCDEFGHIJKLM"), ("syntax", b"U8 1ABCDEFGHIJKLM"), ("syntax", b"U8 ."),
        ("header", b"NOPE"), ("header", b"U8:X 1"), ("header", b"*NOPE"), ("header", b"::U8 1"), ("header", b"U8: 1"),
        ("header", b"ABCDEFGHIJKLM"), ("header", b"U8,"), ("header", b"1U8"), ("header", b"U8;;"), ("header", b"*U8:X"),
        ("header", b"U8 1,2"), ("header", b"U8"), ("header", b"BIG 1"),
        ("type", b"U8 'a'"), ("type", b"U8 (1)"), ("type", b"U8 #11a"), ("type", b"U8 ABC"), ("type", b"U8 1V"),
        ("type", b"STR 1"), ("type", b"STR ABC"), ("type", b"F32 'x'"), ("type", b"F32 #H10"), ("type", b"BOOL 'ON'"),
        ("type", b"ENUM 1"), ("type", b"ENUM 'FAST'"), ("type", b"I16 1S"), ("type", b"BOOL (1)"),
        ("range", b"U8 256"), ("range", b"U8 -1"), ("range", b"I16 32768"), ("range", b"I16 -32769"), ("range", b"U8 1e9"),
        ("range", b"U8 #H100"), ("range", b"I16 #HFFFF"), ("range", b"U8 300.5"),
        ("range", b"U8 #H10000000000000000"), ("range", b"I16 #Q2000000000000000000000"), ("range", b"I16 #Q7777777777777777777777"),
        ("range", b"U8 #B10000000000000000000000000000000000000000000000000000000000000000"), ("range", b"U8 1e400"), ("range", b"I16 -1e400"),
        ("range", b"U8 99999999999999999999999999"), ("range", b"I16 -99999999999999999999999999"), ("range", b"U8 255.6"), ("range", b"I16 -32768.51"),
        ("value", b"CH1 (@-1)"), ("value", b"CH2 (@-1!2)"), ("value", b"CH2 (@1!-2)"), ("value", b"CH3 (@-1!2!3)"), ("value", b"CH3 (@1!-2!3)"), ("value", b"CH3 (@1!2!-3)"),
        ("value", b"ENUM MEDIUM"), ("value", b"BOOL MAYBE"), ("value", b"ENUM FASTER"),
    ];
    for (kind, input) in faults {
        let mut buf: Vec<u8> = Vec::new();
        let r = catch(std::panic::AssertUnwindSafe(|| TREE.run(input, &mut D, &mut Context::default(), &mut buf)));
        let code = match r {
            Ok(Ok(())) => 0,
            Ok(Err(e)) => e.get_code() as i64,
            Err(_) => 99999,
        };
        out.put(&json!({"t": "fault", "kind": kind, "code": code, "input": lossy(input)}));
    }
    // response buffer exhausted at every byte of the response (header, payload, terminator)
    let mut full: Vec<u8> = Vec::new();
    let _ = TREE.run(b"BIG?", &mut D, &mut Context::default(), &mut full);
    macro_rules! caps {
        ($($n:literal)*) => {
            $( let code = run_cap::<$n>();
               if $n < full.len() { out.put(&json!({"t": "fault", "kind": "buffer", "code": code, "input": format!("BIG? with ArrayVec<u8,{}>", $n)})); } )*
        };
    }
    caps!(0 1 2 3 4 5 6 7 8 9 10 11 12 13 14 15 16 17 18 19 20 21 22 23 24 25 26 27 28 29 30 31 32 33 34 35 36);
    out.finish();
    0
}

fn run_cap<const N: usize>() -> i64 {
    let mut buf = arrayvec::ArrayVec::<u8, N>::new();
    match TREE.run(b"BIG?", &mut D, &mut Context::default(), &mut buf) {
        Ok(()) => 0,
        Err(e) => e.get_code() as i64,
    }
}
