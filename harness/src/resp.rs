//! C09 / C20: rows for formatted response data and derived enums, judged by Resp.tla.

use crate::numeric::{finfo32, finfo64, first_token, FInfo};
use crate::util::*;
use arrayvec::ArrayVec;
use scpi::error::{Error, ErrorCode};
use scpi::option::ScpiEnum;
use scpi::parser::response::ResponseData;
use scpi::parser::tokenizer::Token;
use scpi::tree::prelude::{Arbitrary, Binary, Character, Expression, Hex, Octal};
use serde_json::{json, Value};

fn fmt<T: ResponseData>(v: &T) -> Option<Vec<u8>> {
    let mut buf: Vec<u8> = Vec::new();
    match catch(std::panic::AssertUnwindSafe(|| v.format_response_data(&mut buf))) {
        Ok(Ok(())) => Some(buf),
        _ => None,
    }
}

fn digits(s: &str) -> (bool, Vec<i64>) {
    let neg = s.starts_with('-');
    let d: Vec<i64> = s.trim_start_matches('-').trim_start_matches('0').bytes().map(|b| (b - b'0') as i64).collect();
    (neg && !d.is_empty(), d)
}

macro_rules! int_rows {
    ($ty:ty, $name:expr, $v:expr, $out:expr) => {{
        let v: $ty = $v;
        let (neg, d) = digits(&format!("{v}"));
        let mut forms: Vec<(&str, Option<Vec<u8>>)> = vec![("dec", fmt(&v))];
        if !neg {
            forms.push(("hex", fmt(&Hex(v))));
            forms.push(("oct", fmt(&Octal(v))));
            forms.push(("bin", fmt(&Binary(v))));
        }
        for (form, text) in forms {
            let text = text.unwrap_or_else(|| b"<format failed>".to_vec());
            let rep = first_token(&text).and_then(|t| catch(std::panic::AssertUnwindSafe(|| <$ty>::try_from(t).ok())).ok().flatten()) == Some(v);
            $out.put(&json!({"t": "int", "ty": $name, "form": form, "neg": neg, "d": d, "text": bytes_json(&text), "rep": rep}));
        }
    }};
}

fn obs_of(fi: FInfo) -> Value {
    json!({"k": "ok", "code": 0, "cls": fi.cls, "neg": fi.neg, "lo": bytes_json(fi.lo.as_bytes()), "hi": bytes_json(fi.hi.as_bytes()),
           "even": fi.even, "ismax": false, "ismin": false, "d": [], "same": false})
}

fn f32_row(x: f32, out: &mut Out) {
    let text = fmt(&x).unwrap_or_else(|| b"<format failed>".to_vec());
    let rep = if x.is_finite() {
        first_token(&text).and_then(|t| f32::try_from(t).ok()).map(|y| y.to_bits()) == Some(x.to_bits())
    } else {
        true
    };
    out.put(&json!({"t": "flt", "w": 32, "bits": x.to_bits(), "obs": obs_of(finfo32(x)), "text": bytes_json(&text), "rep": rep}));
}
fn f64_row(x: f64, out: &mut Out) {
    let text = fmt(&x).unwrap_or_else(|| b"<format failed>".to_vec());
    let rep = if x.is_finite() {
        first_token(&text).and_then(|t| f64::try_from(t).ok()).map(|y| y.to_bits()) == Some(x.to_bits())
    } else {
        true
    };
    out.put(&json!({"t": "flt", "w": 64, "bits": x.to_bits().to_string(), "obs": obs_of(finfo64(x)), "text": bytes_json(&text), "rep": rep}));
}

fn str_row(val: &[u8], out: &mut Out) {
    let Some(text) = fmt(&val) else {
        // non-ASCII strings are refused with an error: nothing is emitted, nothing to judge
        return;
    };
    let rep = first_token(&text).and_then(|t| <&[u8]>::try_from(t).ok()) == Some(val);
    // the text is judged on its own; what the library's own parser hands back is a separate row
    out.put(&json!({"t": "str", "val": bytes_json(val), "text": bytes_json(&text), "rep": true, "hasquote": val.contains(&b'"')}));
    out.put(&json!({"t": "strrep", "val": bytes_json(val), "text": bytes_json(&text), "rep": rep, "hasquote": val.contains(&b'"')}));
}

fn blk_row(val: &[u8], out: &mut Out) {
    let text = fmt(&Arbitrary(val)).unwrap_or_else(|| b"<format failed>".to_vec());
    let rep = first_token(&text).and_then(|t| Arbitrary::try_from(t).ok()).map(|a| a.0) == Some(val);
    out.put(&json!({"t": "blk", "val": bytes_json(val), "text": bytes_json(&text), "rep": rep}));
    if let Ok(s) = std::str::from_utf8(val) {
        let text = fmt(&s).unwrap_or_else(|| b"<format failed>".to_vec());
        let rep = first_token(&text).and_then(|t| <&str>::try_from(t).ok()) == Some(s);
        out.put(&json!({"t": "blk", "val": bytes_json(val), "text": bytes_json(&text), "rep": rep, "via": "str"}));
    }
}

// ------------------------------------------------------------------ enum family (C20)
macro_rules! enum_family {
    ($( $ename:ident { $( $var:ident $( ($fld:ty) )? = $mn:literal ),+ } )+) => {
        $(
            #[derive(Clone, PartialEq, Debug, scpi_derive::ScpiEnum)]
            enum $ename { $( #[scpi(mnemonic = $mn)] $var $( ($fld) )? ),+ }
        )+
        pub struct EnumInfo {
            pub name: &'static str,
            pub mns: Vec<&'static [u8]>,
            pub from: fn(&[u8]) -> usize,
            pub try_from: fn(Token) -> Result<usize, i64>,
            pub via: fn(&[u8], Token, usize) -> Result<usize, i64>,
            pub resp: fn(usize) -> (Vec<u8>, &'static [u8]),
        }
        pub fn family() -> Vec<EnumInfo> {
            vec![ $( {
                fn idx(v: &$ename) -> usize {
                    let mut k = 0usize;
                    $( k += 1; if matches!(v, $ename::$var { .. }) { return k; } )+
                    let _ = k;
                    0
                }
                fn mk(i: usize) -> $ename {
                    let mut k = 0usize;
                    $( k += 1; if k == i { return <$ename>::from_mnemonic($mn).expect("own mnemonic must select a variant"); } )+
                    let _ = k;
                    unreachable!()
                }
                EnumInfo {
                    name: stringify!($ename),
                    mns: vec![ $( &$mn[..] ),+ ],
                    from: |s| <$ename>::from_mnemonic(s).map(|v| idx(&v)).unwrap_or(0),
                    try_from: |t| <$ename>::try_from(t).map(|v| idx(&v)).map_err(|e| e.get_code() as i64),
                    via: |lit, t, via| crate::numeric::convert_via::<$ename>(lit, t, via).map(|v| idx(&v)).map_err(|e| e.get_code() as i64),
                    resp: |i| { let v = mk(i); (fmt(&v).unwrap_or_default(), v.mnemonic()) },
                }
            } ),+ ]
        }
    };
}

enum_family! {
    Format { Binary = b"BINary", Real = b"REAL", Ascii1 = b"ASCii1", Ascii2 = b"ASCii2", L125 = b"L125" }
    Single { Only = b"MINimum" }
    Chan { C1 = b"CHANnel1", C2 = b"CHANnel2", C10 = b"CHANnel10" }
    Fields { Volt(u8) = b"VOLTage", Curr(u8) = b"CURRent2", Plain = b"RESistance" }
    Query { Max = b"MAXimum", Min = b"MINimum", Def = b"DEFault" }
    Nested { X = b"X", Xy = b"XY", Xyza = b"XYZa", Xyzb = b"XYZBc" }
    Outp { O1 = b"OUTPut", O2 = b"OUTPut2", Inp = b"INPut" }
    Tee { T1 = b"T1", T2 = b"T2", T10 = b"T10", T = b"TT" }
    Speed { Fast = b"FAST", Slow = b"SLOW", Med = b"MEDium3", Ulow(u16) = b"ULOW" }
    Long { Thermo = b"THERmocouple", Temp = b"TEMPerature", Ref2 = b"INTernalref2", C12345 = b"CHANnel12345" }
}

fn enum_rows(out: &mut Out, rng: &mut Rng, thorough: bool) {
    for e in family() {
        let mns: Vec<Value> = e.mns.iter().map(|m| bytes_json(m)).collect();
        // response text of every variant
        for i in 1..=e.mns.len() {
            let r = catch(std::panic::AssertUnwindSafe(|| (e.resp)(i)));
            let (text, own) = r.unwrap_or((b"<panic>".to_vec(), b""));
            let others: Vec<Value> = e.mns.iter().enumerate().filter(|(k, _)| k + 1 != i).map(|(_, m)| bytes_json(m)).collect();
            let rep = catch(std::panic::AssertUnwindSafe(|| (e.from)(&text))).unwrap_or(0) == i
                && first_token(&text).map(|t| (e.try_from)(t)) == Some(Ok(i));
            out.put(&json!({"t": "enum", "enum": e.name, "mn": bytes_json(e.mns[i - 1]), "others": others, "text": bytes_json(&text),
                            "rep": rep, "own": own == e.mns[i - 1]}));
        }
        // candidates: prefixes x case x suffix spellings, single edits, random
        let mut cands: Vec<Vec<u8>> = vec![];
        let sufs: [&[u8]; 8] = [b"", b"0", b"1", b"01", b"2", b"10", b"125", b"3"];
        for m in &e.mns {
            let t = m.iter().rev().take_while(|c| c.is_ascii_digit()).count();
            let alpha = if t == m.len() { &m[..] } else { &m[..m.len() - t] };
            for n in 1..=alpha.len() {
                for v in [alpha[..n].to_vec(), alpha[..n].to_ascii_lowercase(), alpha[..n].to_ascii_uppercase()] {
                    for x in sufs {
                        let mut c = v.clone();
                        c.extend_from_slice(x);
                        if c.len() <= 12 {
                            cands.push(c);
                        }
                    }
                }
            }
            for i in 0..m.len() {
                let mut c = m.to_vec();
                c.remove(i);
                cands.push(c);
                let mut c = m.to_vec();
                c[i] = b'q';
                cands.push(c);
                let mut c = m.to_vec();
                c.insert(i, b'Z');
                cands.push(c);
            }
        }
        for _ in 0..(if thorough { 20000 } else { 150 }) {
            let n = 1 + rng.below(12) as usize;
            cands.push((0..n).map(|_| *rng.pick(b"ABCXYZTabcxyzt0123_")).collect());
        }
        cands.sort();
        cands.dedup();
        for c in &cands {
            if c.is_empty() || !c[0].is_ascii_alphabetic() || c.len() > 12 {
                continue;
            }
            let from = catch(std::panic::AssertUnwindSafe(|| (e.from)(c))).map(|x| x as i64).unwrap_or(-1);
            // through the lexer and one of the three entry points (a candidate of <= 12 mnemonic characters is character data)
            let via = crate::numeric::next_via();
            let tf = match first_token(c) {
                Some(t) => catch(std::panic::AssertUnwindSafe(|| (e.via)(c, t, via))),
                None => Ok(Err(match catch(std::panic::AssertUnwindSafe(|| scpi::parser::tokenizer::Tokenizer::new_params(c).next())) {
                    Ok(Some(Err(ec))) => Error::from(ec).get_code() as i64,
                    Ok(_) => -1,
                    Err(_) => 99999,
                })),
            };
            let (code, got) = match tf {
                Ok(Ok(i)) => (0, i as i64),
                Ok(Err(c)) => (c, 0),
                Err(_) => (99999, 0),
            };
            out.put(&json!({"t": "from", "enum": e.name, "mns": mns, "cand": bytes_json(c), "kind": "chr", "from": from, "code": code, "got": got}));
        }
        // every other element type must be a type error
        for lit in [&b"1"[..], b"1.5e3", b"1 V", b"#HFF", b"'BIN'", b"\"REAL\"", b"#13BIN", b"#14REAL", b"(BIN)", b"(REAL)", b"#10"] {
            if let Some(t) = first_token(lit) {
                let (kind, _) = crate::numeric::kind_of(&t);
                let tf = catch(std::panic::AssertUnwindSafe(|| (e.try_from)(t)));
                let code = match tf {
                    Ok(Ok(_)) => 0,
                    Ok(Err(c)) => c,
                    Err(_) => 99999,
                };
                out.put(&json!({"t": "from", "enum": e.name, "mns": mns, "cand": bytes_json(lit), "kind": kind, "from": 0, "code": code, "got": 0}));
            }
        }
    }
}

pub fn rows_c20(args: &[String]) -> i32 {
    let seed = arg_u64(args, "--seed", 1);
    let thorough = arg_value(args, "--tier").as_deref() == Some("thorough");
    let mut out = Out::new(&arg_value(args, "--out").unwrap_or("-".into()));
    let mut rng = Rng::new(seed ^ 0xC20);
    enum_rows(&mut out, &mut rng, thorough);
    out.finish();
    0
}

pub fn rows_c09(args: &[String]) -> i32 {
    let seed = arg_u64(args, "--seed", 1);
    let thorough = arg_value(args, "--tier").as_deref() == Some("thorough");
    let mut out = Out::new(&arg_value(args, "--out").unwrap_or("-".into()));
    let mut rng = Rng::new(seed ^ 0xC09);
    // integers: 8-bit exhaustively; 16-bit exhaustively (thorough) or strided + boundaries (quick)
    for v in u8::MIN..=u8::MAX {
        int_rows!(u8, "u8", v, out);
    }
    for v in i8::MIN..=i8::MAX {
        int_rows!(i8, "i8", v, out);
    }
    let stride = if thorough { 1 } else { 61 };
    let mut v = 0u32;
    while v <= u16::MAX as u32 {
        int_rows!(u16, "u16", v as u16, out);
        int_rows!(i16, "i16", (v as u16) as i16, out);
        v += stride;
    }
    for v in [u16::MAX, 32767, 32768, 255, 256, 9, 10, 99, 100, 999, 1000, 9999, 10000] {
        int_rows!(u16, "u16", v, out);
        int_rows!(i16, "i16", v as i16, out);
    }
    let nrand = if thorough { 20000 } else { 400 };
    for k in 0..64u32 {
        for d in [-1i128, 0, 1] {
            let p = (1i128 << k) + d;
            if p <= u32::MAX as i128 { int_rows!(u32, "u32", p as u32, out); }
            if p <= i32::MAX as i128 { int_rows!(i32, "i32", p as i32, out); int_rows!(i32, "i32", (-p) as i32, out); }
            if p <= u64::MAX as i128 { int_rows!(u64, "u64", p as u64, out); int_rows!(usize, "usize", p as usize, out); }
            if p <= i64::MAX as i128 { int_rows!(i64, "i64", p as i64, out); int_rows!(i64, "i64", (-p) as i64, out); int_rows!(isize, "isize", (-p) as isize, out); }
        }
    }
    for v in [u32::MAX, 0, 1] { int_rows!(u32, "u32", v, out); }
    for v in [i32::MIN, i32::MAX, -1] { int_rows!(i32, "i32", v, out); }
    for v in [u64::MAX, 0, 10_000_000_000_000_000_000] { int_rows!(u64, "u64", v, out); }
    for v in [i64::MIN, i64::MAX, -1] { int_rows!(i64, "i64", v, out); }
    for _ in 0..nrand {
        let r = rng.next();
        int_rows!(u64, "u64", r >> rng.below(64), out);
        int_rows!(i64, "i64", (r as i64) >> rng.below(64), out);
        int_rows!(u32, "u32", (r as u32) >> rng.below(32), out);
        int_rows!(i32, "i32", (r as i32) >> rng.below(32), out);
    }
    // floats
    for x in [0.0f32, -0.0, 1.0, -1.0, 0.1, 1e10, 1e-10, f32::MAX, f32::MIN, f32::MIN_POSITIVE, f32::EPSILON, f32::NAN, f32::INFINITY, f32::NEG_INFINITY,
              9.91e37, 9.9e37, -f32::NAN, f32::from_bits(0xFFC0_0001), f32::from_bits(0x7F80_0001), f32::from_bits(0xFF80_0000 | 0x1234), 16777216.0, 16777217.0, 0.3, 123456.79, 1e38, 3.4e38, 1e-38, 1e-45, 1.5, 100.0, 1e7, 1e-5, 1e21, 1e22, 1e-7] {
        f32_row(x, &mut out);
    }
    for x in [0.0f64, -0.0, 1.0, -1.0, 0.1, 1e10, 1e-10, f64::MAX, f64::MIN, f64::MIN_POSITIVE, f64::EPSILON, f64::NAN, f64::INFINITY, f64::NEG_INFINITY,
              9.91e37, 9.9e37, -f64::NAN, f64::from_bits(0xFFF0_0000_0000_0001), f64::from_bits(0x7FF0_0000_0000_0001), 9007199254740993.0, 0.30000000000000004, 1e308, 1e-308, 5e-324, 1.7976931348623157e308, 1e22, 1e23, 1e21, 123456789.123456789, 1e-7, 1e-5] {
        f64_row(x, &mut out);
    }
    for e in 0..=254u32 {
        for m in [0u32, 1, 0x400000, 0x7fffff, 0x2aaaaa, 0x555555] {
            f32_row(f32::from_bits((e << 23) | m), &mut out);
            if m < 2 { f32_row(-f32::from_bits((e << 23) | m), &mut out); }
        }
    }
    let estep = if thorough { 1 } else { 29 };
    let mut e = 0u64;
    while e <= 2046 {
        for m in [0u64, 1, 0x8000000000000, 0xfffffffffffff, 0x5555555555555] {
            f64_row(f64::from_bits((e << 52) | m), &mut out);
        }
        e += estep;
    }
    for k in -45i32..=38 { f32_row(format!("1e{k}").parse::<f32>().unwrap(), &mut out); }
    for k in (-323i32..=308).step_by(if thorough { 1 } else { 13 }) { f64_row(format!("1e{k}").parse::<f64>().unwrap(), &mut out); }
    for _ in 0..(if thorough { 100_000 } else { 1500 }) {
        f32_row(f32::from_bits(rng.next() as u32), &mut out);
        f64_row(f64::from_bits(rng.next()), &mut out);
    }
    // booleans
    for b in [false, true] {
        let text = fmt(&b).unwrap_or_default();
        let rep = first_token(&text).and_then(|t| bool::try_from(t).ok()) == Some(b);
        out.put(&json!({"t": "bool", "v": b as i64, "text": bytes_json(&text), "rep": rep}));
    }
    // strings: all strings of length <= 3 over {a " , ;}, every ASCII byte, random
    let alpha = [b'a', b'"', b',', b';'];
    let mut strs: Vec<Vec<u8>> = vec![vec![]];
    let mut level: Vec<Vec<u8>> = vec![vec![]];
    for _ in 0..3 {
        let mut next = vec![];
        for s in &level {
            for c in alpha {
                let mut t = s.clone();
                t.push(c);
                next.push(t);
            }
        }
        strs.extend(next.iter().cloned());
        level = next;
    }
    for b in 0u8..128 {
        strs.push(vec![b]);
        strs.push(vec![b'x', b, b'y']);
    }
    for _ in 0..(if thorough { 5000 } else { 200 }) {
        let n = rng.below(20) as usize;
        strs.push((0..n).map(|_| if rng.chance(1, 4) { b'"' } else { rng.below(128) as u8 }).collect());
    }
    for s in &strs {
        str_row(s, &mut out);
    }
    // blocks
    for n in [0usize, 1, 2, 9, 10, 11, 99, 100, 101, 109, 110, 999, 1000, 1001, 1099, 1100, 9999, 10000] {
        let v: Vec<u8> = (0..n).map(|i| if i % 7 == 0 { b';' } else { rng.next() as u8 }).collect();
        blk_row(&v, &mut out);
        let v: Vec<u8> = (0..n).map(|i| b'a' + (i % 26) as u8).collect();
        blk_row(&v, &mut out);
    }
    for v in [&b"#0"[..], b"\n", b"\"", b";,", b"\xff\x00"] {
        blk_row(v, &mut out);
    }
    // text (&str) is sent as a block of its UTF-8 bytes: multi-byte characters of every width
    for v in ["10 \u{b5}V", "\u{e9}", "caf\u{e9}", "\u{65e5}\u{672c}\u{8a9e}", "a\u{1f600}b", "\u{b5}\u{b5}\u{b5}\u{b5}\u{b5}\u{b5}\u{b5}\u{b5}\u{b5}\u{b5}", "\u{7f}\u{80}"] {
        blk_row(v.as_bytes(), &mut out);
    }
    for _ in 0..(if thorough { 300 } else { 30 }) {
        let n = rng.below(12) as usize;
        let s: String = (0..n).map(|_| *rng.pick(&['a', ';', '\u{b5}', '\u{e9}', '\u{20ac}', '\u{1f600}', '"', '\n'])).collect();
        blk_row(s.as_bytes(), &mut out);
    }
    // character and expression data
    for v in [&b"ABC"[..], b"A", b"ON", b"A_1", b"ABCDEFGHIJKL", b"T800"] {
        let text = fmt(&Character(v)).unwrap_or_default();
        let rep = first_token(&text).and_then(|t| Character::try_from(t).ok()).map(|c| c.0) == Some(v);
        out.put(&json!({"t": "chr", "val": bytes_json(v), "text": bytes_json(&text), "rep": rep}));
    }
    for v in [&b"1,2"[..], b"@1:3,5", b"", b"1!2", b"a b"] {
        let text = fmt(&Expression(v)).unwrap_or_default();
        let rep = first_token(&text).and_then(|t| Expression::try_from(t).ok()).map(|c| c.0) == Some(v);
        out.put(&json!({"t": "expr", "val": bytes_json(v), "text": bytes_json(&text), "rep": rep}));
    }
    // lists
    for n in 1..=5usize {
        let vals: Vec<i32> = (0..n).map(|i| (rng.next() as i32) >> (i * 5)).collect();
        let text = fmt(&vals).unwrap_or_default();
        let j: Vec<Value> = vals.iter().map(|v| { let (neg, d) = digits(&format!("{v}")); json!({"neg": neg, "d": d}) }).collect();
        out.put(&json!({"t": "list", "vals": j, "text": bytes_json(&text), "via": "Vec"}));
        let mut av = ArrayVec::<u8, 5>::new();
        for i in 0..n { av.push((rng.next() as u8) >> i); }
        let text = fmt(&av).unwrap_or_default();
        let j: Vec<Value> = av.iter().map(|v| { let (neg, d) = digits(&format!("{v}")); json!({"neg": neg, "d": d}) }).collect();
        out.put(&json!({"t": "list", "vals": j, "text": bytes_json(&text), "via": "ArrayVec"}));
    }
    // error/event queue items: every standard code with and without extended text, and customs
    for c in i16::MIN..=i16::MAX {
        if let Some(ec) = ErrorCode::get_error(c) {
            for ext in [None, Some(&b"extra; info"[..])] {
                let e = match ext { None => Error::new(ec), Some(x) => Error::new(ec).extended(x) };
                let text = fmt(&e).unwrap_or_default();
                out.put(&json!({"t": "err", "code": e.get_code(), "msg": bytes_json(e.get_message()), "ext": bytes_json(ext.unwrap_or(b"")), "text": bytes_json(&text)}));
            }
        }
    }
    // descriptions and extended texts with embedded double quotes (must be doubled) and non-ASCII bytes (cannot be sent)
    for (c, m) in [(321i16, &b"Relay \"K2\" stuck"[..]), (42, b"Bad \"mode\" value"), (-310, b"\""), (7, b"\"\""), (8, b"a\"")] {
        for ext in [None, Some(&b"see \"log\""[..]), Some(&b"plain"[..])] {
            let e = match ext { None => Error::custom(c, m), Some(x) => Error::custom(c, m).extended(x) };
            let text = fmt(&e).unwrap_or_default();
            out.put(&json!({"t": "err", "code": c, "msg": bytes_json(m), "ext": bytes_json(ext.unwrap_or(b"")), "text": bytes_json(&text)}));
        }
    }
    // items longer than 255 characters are sent whole (nothing in the item may be cut)
    for n in [200usize, 239, 240, 255, 256, 300, 1000] {
        let ext: Vec<u8> = (0..n).map(|i| b'a' + (i % 26) as u8).collect();
        let ext: &'static [u8] = Box::leak(ext.into_boxed_slice());
        for e in [Error::new(ErrorCode::ExecutionError).extended(ext), Error::custom(77, b"Custom description").extended(ext)] {
            let text = fmt(&e).unwrap_or_default();
            out.put(&json!({"t": "err", "code": e.get_code(), "msg": bytes_json(e.get_message()), "ext": bytes_json(ext), "text": bytes_json(&text)}));
        }
    }
    // finish() between the data() calls of one unit (`for v in vals { unit.data(v).finish()?; }`): the separators stay
    {
        use scpi::parser::response::Formatter;
        let vals: Vec<i32> = vec![1, -22, 333, 4];
        let mut buf: Vec<u8> = Vec::new();
        let fin = catch(std::panic::AssertUnwindSafe(|| {
            let mut u = buf.response_unit().unwrap();
            let mut r = Ok(());
            for v in &vals {
                r = u.data(*v).finish();
            }
            r
        }));
        let j: Vec<Value> = vals.iter().map(|v| { let (neg, d) = digits(&format!("{v}")); json!({"neg": neg, "d": d}) }).collect();
        out.put(&json!({"t": "list", "vals": j, "text": bytes_json(if matches!(fin, Ok(Ok(()))) { &buf } else { b"<failed>" }), "via": "finish() after every data()"}));
    }
    // a derived enum in which one variant has two mnemonics (an alias): every variant still answers with a mnemonic of its own
    {
        use scpi::option::ScpiEnum;
        #[derive(Clone, Copy, PartialEq, Debug, scpi_derive::ScpiEnum)]
        enum Alias {
            #[scpi(mnemonic = b"VOLTage")]
            #[scpi(mnemonic = b"POTential")]
            Volt,
            #[scpi(mnemonic = b"CURRent")]
            Curr,
            #[scpi(mnemonic = b"RESistance2")]
            #[scpi(mnemonic = b"OHM")]
            Res,
            #[scpi(mnemonic = b"POWer")]
            Pow,
        }
        let all: [(Alias, &[&[u8]]); 4] = [(Alias::Volt, &[b"VOLTage", b"POTential"]), (Alias::Curr, &[b"CURRent"]), (Alias::Res, &[b"RESistance2", b"OHM"]), (Alias::Pow, &[b"POWer"])];
        for (v, own) in all.iter() {
            let text = fmt(v).unwrap_or_else(|| b"<failed>".to_vec());
            let others: Vec<Value> = all.iter().filter(|(w, _)| w != v).flat_map(|(_, m)| m.iter().map(|x| bytes_json(x))).collect();
            let rep = catch(std::panic::AssertUnwindSafe(|| Alias::from_mnemonic(&text))).ok().flatten() == Some(*v);
            // the emitted mnemonic must match one of the variant's own mnemonics: judged against the one it matches best (first that matches, else the first)
            let mn = own.iter().find(|m| scpi::parser::mnemonic_match(m, &text)).unwrap_or(&own[0]);
            out.put(&json!({"t": "enum", "enum": "Alias", "mn": bytes_json(mn), "others": others, "text": bytes_json(&text), "rep": rep, "own": own.contains(&v.mnemonic())}));
        }
    }
    // one response unit with 300 separate data() calls (the separator does not depend on how many came before)
    {
        use scpi::parser::response::Formatter;
        let vals: Vec<i32> = (0..300).map(|i| i * 7 - 1000).collect();
        let mut buf: Vec<u8> = Vec::new();
        let fin = catch(std::panic::AssertUnwindSafe(|| {
            let mut u = buf.response_unit().unwrap();
            for v in &vals {
                u.data(*v);
            }
            u.finish()
        }));
        let j: Vec<Value> = vals.iter().map(|v| { let (neg, d) = digits(&format!("{v}")); json!({"neg": neg, "d": d}) }).collect();
        out.put(&json!({"t": "list", "vals": j, "text": bytes_json(if matches!(fin, Ok(Ok(()))) { &buf } else { b"<failed>" }), "via": "300 data() calls"}));
    }
    {
        let e = Error::new(ErrorCode::ExecutionError).extended(b"say \"hi\"");
        let text = fmt(&e).unwrap_or_default();
        out.put(&json!({"t": "err", "code": e.get_code(), "msg": bytes_json(e.get_message()), "ext": bytes_json(b"say \"hi\""), "text": bytes_json(&text)}));
    }
    for (m, ext) in [(&b"caf\xc3\xa9"[..], None), (b"plain", Some(&b"caf\xc3\xa9"[..])), (b"\xff", None), (b"\xb5V", Some(&b"x"[..]))] {
        let e = match ext { None => Error::custom(55, m), Some(x) => Error::custom(55, m).extended(x) };
        let p0 = panics();
        let r = fmt(&e);
        out.put(&json!({"t": "unitfail", "kind": "non-ascii-error-item", "pos": 0, "finerr": r.is_none() && panics() == p0, "text": bytes_json(&r.unwrap_or_default())}));
    }
    for (c, m) in [(1i16, &b"One"[..]), (32767, b"Max custom"), (-32768, b"Min"), (100, b"it's"), (-301, b"x,y")] {
        let e = Error::custom(c, m);
        let text = fmt(&e).unwrap_or_default();
        out.put(&json!({"t": "err", "code": c, "msg": bytes_json(m), "ext": [], "text": bytes_json(&text)}));
        let e = Error::custom(c, m).extended(b"ext");
        let text = fmt(&e).unwrap_or_default();
        out.put(&json!({"t": "err", "code": c, "msg": bytes_json(m), "ext": bytes_json(b"ext"), "text": bytes_json(&text)}));
    }
    // response units with several data: an unformattable datum anywhere makes the unit fail, whatever follows
    {
        use scpi::parser::response::Formatter;
        let non_ascii: &[u8] = b"caf\xc3\xa9";
        let empty: Vec<u8> = vec![];
        for pos in 0..3usize {
            for kind in ["empty-list", "non-ascii-string"] {
                let mut buf: Vec<u8> = Vec::new();
                let fin = catch(std::panic::AssertUnwindSafe(|| {
                    let mut u = buf.response_unit().unwrap();
                    for k in 0..3usize {
                        if k == pos {
                            if kind == "empty-list" { u.data(empty.clone()); } else { u.data(non_ascii); }
                        } else {
                            u.data(7u8 + k as u8);
                        }
                    }
                    u.finish()
                }));
                // a panic is not "the unit failed as required"
                out.put(&json!({"t": "unitfail", "kind": kind, "pos": pos, "finerr": matches!(fin, Ok(Err(_))), "text": bytes_json(&buf)}));
            }
        }
        let mut buf: Vec<u8> = Vec::new();
        let fin = buf.response_unit().unwrap().data(1u8).data(&b"ok"[..]).data(-2i16).finish();
        out.put(&json!({"t": "unitok", "finerr": fin.is_err(), "text": bytes_json(&buf)}));
    }
    // every derived enum variant
    enum_rows_resp_only(&mut out);
    out.finish();
    0
}

fn enum_rows_resp_only(out: &mut Out) {
    for e in family() {
        for i in 1..=e.mns.len() {
            let r = catch(std::panic::AssertUnwindSafe(|| (e.resp)(i)));
            let (text, own) = r.unwrap_or((b"<panic>".to_vec(), b""));
            let others: Vec<Value> = e.mns.iter().enumerate().filter(|(k, _)| k + 1 != i).map(|(_, m)| bytes_json(m)).collect();
            let rep = catch(std::panic::AssertUnwindSafe(|| (e.from)(&text))).unwrap_or(0) == i;
            out.put(&json!({"t": "enum", "enum": e.name, "mn": bytes_json(e.mns[i - 1]), "others": others, "text": bytes_json(&text),
                            "rep": rep, "own": own == e.mns[i - 1]}));
        }
    }
}

/// Harness-only exploration (not judged by TLC): every one of the 2^32 f32 bit patterns is formatted and read back
/// with the library's own parser; finite values must come back bit-for-bit, NaN/inf as the SCPI sentinels, and the
/// text must consist of NRf characters only. Reports the first few failures.
pub fn f32_sweep(args: &[String]) -> i32 {
    let threads = arg_u64(args, "--threads", 12) as u32;
    let stride = arg_u64(args, "--stride", 1) as u64;
    let bad = std::sync::Arc::new(std::sync::Mutex::new(Vec::<Value>::new()));
    let count = std::sync::Arc::new(std::sync::atomic::AtomicU64::new(0));
    let mut hs = vec![];
    for t in 0..threads {
        let bad = bad.clone();
        let count = count.clone();
        hs.push(std::thread::spawn(move || {
            let mut buf: Vec<u8> = Vec::with_capacity(64);
            let mut n = 0u64;
            let mut bits = t as u64 * stride;
            while bits <= u32::MAX as u64 {
                let x = f32::from_bits(bits as u32);
                buf.clear();
                let ok = x.format_response_data(&mut buf).is_ok();
                let good = if !ok {
                    false
                } else if x.is_nan() {
                    buf == b"9.91E+37"
                } else if x.is_infinite() {
                    buf == if x < 0.0 { &b"-9.9E+37"[..] } else { &b"9.9E+37"[..] }
                } else {
                    buf.iter().all(|c| c.is_ascii_digit() || b".eE+-".contains(c))
                        && first_token(&buf).and_then(|t| f32::try_from(t).ok()).map(|y| y.to_bits()) == Some(bits as u32)
                };
                if !good {
                    let mut g = bad.lock().unwrap();
                    if g.len() < 20 {
                        g.push(json!({"bits": bits, "text": lossy(&buf)}));
                    }
                }
                n += 1;
                bits += threads as u64 * stride;
            }
            count.fetch_add(n, std::sync::atomic::Ordering::Relaxed);
        }));
    }
    for h in hs {
        let _ = h.join();
    }
    let b = bad.lock().unwrap();
    println!("{}", json!({"summary": true, "patterns": count.load(std::sync::atomic::Ordering::Relaxed), "bad": b.len(), "examples": *b}));
    0
}
