//! C19: replay of TLC-enumerated channel lists / numeric lists on the real iterators.

use crate::util::*;
use scpi::parser::expression::channel_list::{self, ChannelList, ChannelSpec};
use scpi::parser::expression::numeric_list::{self, NumericList};
use scpi::parser::tokenizer::Token;
use serde_json::{json, Value};

fn num_bytes(t: &Token) -> Vec<u8> {
    match t {
        Token::DecimalNumericProgramData(s) => s.to_vec(),
        _ => b"<not a number>".to_vec(),
    }
}

/// dims of a spec as seen through every API: iterator, dimension(), tuple conversions
fn spec_view(sp: ChannelSpec, probs: &mut Vec<String>) -> Vec<i64> {
    let mut dims: Vec<i64> = vec![];
    let mut n = 0;
    for d in sp {
        n += 1;
        match d {
            Ok(v) => dims.push(v as i64),
            Err(_) => {
                probs.push("dimension iterator reports an error inside a yielded spec".into());
                break;
            }
        }
        if n > 64 {
            probs.push("dimension iterator does not terminate".into());
            break;
        }
    }
    if sp.dimension() != dims.len() || sp.len() != dims.len() {
        probs.push(format!("dimension() = {} but {} dimensions iterate", sp.dimension(), dims.len()));
    }
    match dims.len() {
        1 => {
            if isize::try_from(sp).ok().map(|v| v as i64) != Some(dims[0]) {
                probs.push(format!("isize conversion differs from the text ({:?})", isize::try_from(sp).ok()));
            }
            if dims[0] >= 0 && usize::try_from(sp).ok().map(|v| v as i64) != Some(dims[0]) {
                probs.push("usize conversion differs from the text".into());
            }
            if <(isize, isize)>::try_from(sp).is_ok() || <(isize, isize, isize)>::try_from(sp).is_ok() {
                probs.push("tuple conversion of the wrong dimension succeeds".into());
            }
        }
        2 => {
            let got = <(isize, isize)>::try_from(sp).ok().map(|(a, b)| vec![a as i64, b as i64]);
            if got.as_deref() != Some(&dims[..]) {
                probs.push(format!("(isize, isize) conversion gives {:?}, text says {:?}", got, dims));
            }
            if dims.iter().all(|d| *d >= 0) {
                let got = <(usize, usize)>::try_from(sp).ok().map(|(a, b)| vec![a as i64, b as i64]);
                if got.as_deref() != Some(&dims[..]) {
                    probs.push(format!("(usize, usize) conversion gives {:?}, text says {:?}", got, dims));
                }
            }
            if isize::try_from(sp).is_ok() || <(isize, isize, isize)>::try_from(sp).is_ok() {
                probs.push("conversion of the wrong dimension succeeds".into());
            }
        }
        3 => {
            let got = <(isize, isize, isize)>::try_from(sp).ok().map(|(a, b, c)| vec![a as i64, b as i64, c as i64]);
            if got.as_deref() != Some(&dims[..]) {
                probs.push(format!("(isize, isize, isize) conversion gives {:?}, text says {:?}", got, dims));
            }
            if dims.iter().all(|d| *d >= 0) {
                let got = <(usize, usize, usize)>::try_from(sp).ok().map(|(a, b, c)| vec![a as i64, b as i64, c as i64]);
                if got.as_deref() != Some(&dims[..]) {
                    probs.push(format!("(usize, usize, usize) conversion gives {:?}, text says {:?}", got, dims));
                }
            }
            if isize::try_from(sp).is_ok() || <(isize, isize)>::try_from(sp).is_ok() {
                probs.push("conversion of the wrong dimension succeeds".into());
            }
        }
        _ => {}
    }
    dims
}

/// dimension values as decimal text (the specification carries them as text: TLC integers are 32-bit)
fn txt(v: &[i64]) -> Vec<String> {
    v.iter().map(|x| x.to_string()).collect()
}

fn expected_entry(e: &Value) -> Value {
    // normalise the specification's entry to the shape the harness observes
    let dims = |a: &Value| -> Value { Value::Array(a.as_array().unwrap().iter().map(|d| d["v"].clone()).collect()) };
    match e["k"].as_str().unwrap() {
        "num" => json!({"k": "num", "a": e["a"]}),
        "nrange" => json!({"k": "nrange", "a": e["a"], "b": e["b"]}),
        "spec" => json!({"k": "spec", "a": dims(&e["a"])}),
        "range" => json!({"k": "range", "a": dims(&e["a"]), "b": dims(&e["b"])}),
        "path" => json!({"k": "path", "p": e["p"]}),
        k => panic!("entry kind {k}"),
    }
}

pub fn replay(args: &[String]) -> i32 {
    let cases = read_ndjson(&arg_value(args, "--cases").unwrap());
    let mut out = Out::new(&arg_value(args, "--out").unwrap_or("-".into()));
    let (mut bad, mut corrupted, mut with_spec) = (0u64, 0u64, 0u64);
    let mut samples = vec![];
    for (ci, c) in cases.iter().enumerate() {
        let text = bytes_from_json(&c["text"]);
        let channel = c["channel"].as_bool().unwrap();
        let exp: Vec<Value> = c["entries"].as_array().unwrap().iter().map(expected_entry).collect();
        let (lo, hi, err) = (c["win"]["lo"].as_u64().unwrap() as usize, c["win"]["hi"].as_u64().unwrap() as usize, c["win"]["err"].as_bool().unwrap());
        corrupted += err as u64;
        let r = catch(std::panic::AssertUnwindSafe(|| {
            let mut probs: Vec<String> = vec![];
            let mut got: Vec<Value> = vec![];
            let mut ended_with_err = false;
            if channel {
                let mut full = b"@".to_vec();
                full.extend_from_slice(&text);
                let Some(cl) = ChannelList::new(&full) else { return (got, false, vec!["ChannelList::new refused an expression starting with @".to_string()]) };
                let mut n = 0;
                for item in cl {
                    n += 1;
                    if n > 64 {
                        probs.push("iteration does not terminate".into());
                        break;
                    }
                    match item {
                        Err(_) => {
                            ended_with_err = true;
                            break;
                        }
                        Ok(channel_list::Token::ChannelSpec(a)) => got.push(json!({"k": "spec", "a": txt(&spec_view(a, &mut probs))})),
                        Ok(channel_list::Token::ChannelRange(a, b)) => {
                            let (va, vb) = (spec_view(a, &mut probs), spec_view(b, &mut probs));
                            if va.len() != vb.len() {
                                probs.push("range ends of different dimension yielded".into());
                            }
                            got.push(json!({"k": "range", "a": txt(&va), "b": txt(&vb)}))
                        }
                        Ok(channel_list::Token::PathName(p)) => got.push(json!({"k": "path", "p": bytes_json(p)})),
                        Ok(channel_list::Token::ModuleChannel(..)) => got.push(json!({"k": "module"})),
                    }
                }
            } else {
                let mut n = 0;
                for item in NumericList::new(&text) {
                    n += 1;
                    if n > 64 {
                        probs.push("iteration does not terminate".into());
                        break;
                    }
                    match item {
                        Err(_) => {
                            ended_with_err = true;
                            break;
                        }
                        Ok(numeric_list::Token::Numeric(a)) => got.push(json!({"k": "num", "a": bytes_json(&num_bytes(&a))})),
                        Ok(numeric_list::Token::NumericRange(a, b)) => {
                            got.push(json!({"k": "nrange", "a": bytes_json(&num_bytes(&a)), "b": bytes_json(&num_bytes(&b))}))
                        }
                    }
                }
            }
            (got, ended_with_err, probs)
        }));
        let (got, ended_err, mut probs) = match r {
            Ok(x) => x,
            Err(p) => (vec![], false, vec![format!("panic: {p}")]),
        };
        with_spec += got.iter().any(|g| g["k"] == "spec" || g["k"] == "range") as u64;
        let n = got.len();
        if n < lo || n > hi {
            probs.push(format!("{n} entries yielded before the {}; the specification expects {lo}..{hi}", if ended_err { "error" } else { "end" }));
        }
        if got[..n.min(exp.len())] != exp[..n.min(exp.len())] || n > exp.len() {
            probs.push("yielded entries differ from the denoted ones".into());
        }
        let either = c["either"].as_bool().unwrap_or(false);
        if err && !ended_err && !either {
            probs.push("corruption not reported: iteration ended without an error".into());
        }
        if !err && ended_err {
            probs.push("well-formed list reported an error".into());
        }
        if ci % 499 == 5 && samples.len() < 4 {
            samples.push(json!({"text": lossy(&text), "channel": channel, "corruption": c["corr"], "expected_entries": exp.len(), "window": c["win"]}));
        }
        if !probs.is_empty() {
            bad += 1;
            out.put(&json!({"bad": probs, "text": lossy(&text), "channel": channel, "corr": c["corr"], "expected": exp, "win": c["win"],
                            "got": got, "ended_with_error": ended_err}));
        }
    }
    out.put(&json!({"summary": true, "cases": cases.len(), "bad": bad, "corrupted": corrupted, "with_spec": with_spec, "samples": samples}));
    out.finish();
    0
}
