//! Small shared helpers: deterministic PRNG, JSON helpers, error mapping, panic capture.

use scpi::error::{Error, ErrorCode};
use serde_json::{json, Value};
use std::io::{BufRead, Write};

/// xorshift64* – deterministic, seedable, no dependency.
pub struct Rng(u64);
impl Rng {
    pub fn new(seed: u64) -> Self {
        Rng(seed.wrapping_mul(0x9E3779B97F4A7C15) ^ 0xD1B54A32D192ED03 | 1)
    }
    pub fn next(&mut self) -> u64 {
        let mut x = self.0;
        x ^= x >> 12;
        x ^= x << 25;
        x ^= x >> 27;
        self.0 = x;
        x.wrapping_mul(0x2545F4914F6CDD1D)
    }
    pub fn below(&mut self, n: u64) -> u64 {
        if n == 0 {
            0
        } else {
            self.next() % n
        }
    }
    pub fn chance(&mut self, num: u64, den: u64) -> bool {
        self.below(den) < num
    }
    pub fn pick<'a, T>(&mut self, xs: &'a [T]) -> &'a T {
        &xs[self.below(xs.len() as u64) as usize]
    }
}

/// Extended-text table: ext id 0 = none.
pub const EXT: [&[u8]; 4] = [b"", b"ext \"one\"", b"x;y", b"Internal parser error"];

pub fn ext_of(id: i64) -> Option<&'static [u8]> {
    if id <= 0 {
        None
    } else {
        Some(EXT[(id as usize).min(EXT.len() - 1)])
    }
}

pub fn ext_id(e: &Error) -> i64 {
    match e.get_extended() {
        None => 0,
        Some(x) => EXT
            .iter()
            .position(|t| *t == x)
            .map(|p| p as i64)
            .unwrap_or(99),
    }
}

/// Build an `Error` from the abstract record {code, ext}.
pub fn mk_error(code: i64, ext: i64) -> Error {
    let code = code as i16;
    let ec = ErrorCode::get_error(code).unwrap_or(ErrorCode::Custom(code, b"\"dev\" Custom \"x\" error"));
    match ext_of(ext) {
        None => Error::new(ec),
        Some(x) => Error::new(ec).extended(x),
    }
}

pub fn err_json(e: &Error) -> Value {
    json!({"code": e.get_code() as i64, "ext": ext_id(e)})
}

pub fn err_from_json(v: &Value) -> Error {
    mk_error(v["code"].as_i64().unwrap(), v["ext"].as_i64().unwrap_or(0))
}

pub fn bytes_json(b: &[u8]) -> Value {
    Value::Array(b.iter().map(|x| json!(*x as i64)).collect())
}

pub fn bytes_from_json(v: &Value) -> Vec<u8> {
    v.as_array()
        .map(|a| a.iter().map(|x| x.as_i64().unwrap() as u8).collect())
        .unwrap_or_default()
}

pub fn lossy(b: &[u8]) -> String {
    b.iter()
        .map(|c| {
            if (0x20..0x7f).contains(c) && *c != b'\\' {
                (*c as char).to_string()
            } else {
                format!("\\x{:02x}", c)
            }
        })
        .collect()
}

pub fn read_ndjson(path: &str) -> Vec<Value> {
    let rd: Box<dyn BufRead> = if path == "-" {
        Box::new(std::io::BufReader::new(std::io::stdin()))
    } else {
        Box::new(std::io::BufReader::new(
            std::fs::File::open(path).unwrap_or_else(|e| panic!("open {path}: {e}")),
        ))
    };
    // Accepts plain ndjson and raw TLC output, where each payload line is a JSON string literal
    // (PrintT of ToJson) and everything else is TLC chatter.
    let mut out = Vec::new();
    for l in rd.split(b'\n') {
        let l = l.unwrap();
        let l = String::from_utf8_lossy(&l);
        let t = l.trim();
        if t.starts_with('{') {
            out.push(serde_json::from_str(t).unwrap_or_else(|e| panic!("bad json {t}: {e}")));
        } else if t.starts_with("\"{") {
            let inner: String = serde_json::from_str(t).unwrap_or_else(|e| panic!("bad json string {t}: {e}"));
            out.push(serde_json::from_str(&inner).unwrap_or_else(|e| panic!("bad inner json {inner}: {e}")));
        }
    }
    out
}

pub struct Out {
    w: std::io::BufWriter<Box<dyn Write>>,
    pub n: u64,
}
impl Out {
    pub fn new(path: &str) -> Self {
        let w: Box<dyn Write> = if path == "-" {
            Box::new(std::io::stdout())
        } else {
            Box::new(std::fs::File::create(path).unwrap_or_else(|e| panic!("create {path}: {e}")))
        };
        Out {
            w: std::io::BufWriter::with_capacity(1 << 20, w),
            n: 0,
        }
    }
    pub fn put(&mut self, v: &Value) {
        serde_json::to_writer(&mut self.w, v).unwrap();
        self.w.write_all(b"\n").unwrap();
        self.n += 1;
    }
    pub fn finish(mut self) -> u64 {
        self.w.flush().unwrap();
        self.n
    }
}

/// Run `f`, converting a panic into Err(message). The global hook is silenced once.
/// number of panics caught so far (a caught panic is data, never a "failed as required")
pub static PANICS: std::sync::atomic::AtomicU64 = std::sync::atomic::AtomicU64::new(0);
pub fn panics() -> u64 {
    PANICS.load(std::sync::atomic::Ordering::Relaxed)
}
pub fn catch<T>(f: impl FnOnce() -> T + std::panic::UnwindSafe) -> Result<T, String> {
    static ONCE: std::sync::Once = std::sync::Once::new();
    ONCE.call_once(|| std::panic::set_hook(Box::new(|_| {})));
    std::panic::catch_unwind(f).map_err(|e| {
        PANICS.fetch_add(1, std::sync::atomic::Ordering::Relaxed);
        if let Some(s) = e.downcast_ref::<&str>() {
            s.to_string()
        } else if let Some(s) = e.downcast_ref::<String>() {
            s.clone()
        } else {
            "panic".to_string()
        }
    })
}

pub fn arg_value(args: &[String], name: &str) -> Option<String> {
    args.iter()
        .position(|a| a == name)
        .and_then(|i| args.get(i + 1).cloned())
}

pub fn arg_u64(args: &[String], name: &str, default: u64) -> u64 {
    arg_value(args, name)
        .map(|s| s.parse().unwrap())
        .unwrap_or(default)
}

/// Hang detector: if `tick` is not called for `secs` seconds, reports the current case on stdout
/// as a {"bad":["C01 hang ..."]} record and terminates the process (exit code 0: the record is data).
pub struct Watchdog {
    state: std::sync::Arc<std::sync::Mutex<(std::time::Instant, Vec<u8>, bool)>>,
}
impl Watchdog {
    pub fn start(secs: u64) -> Self {
        let state = std::sync::Arc::new(std::sync::Mutex::new((std::time::Instant::now(), Vec::new(), false)));
        let st = state.clone();
        std::thread::spawn(move || loop {
            std::thread::sleep(std::time::Duration::from_millis(500));
            let g = st.lock().unwrap();
            if g.2 {
                return;
            }
            if g.0.elapsed().as_secs() >= secs {
                println!(
                    "{}",
                    serde_json::json!({"bad": ["C01 hang: no progress for the watchdog period"], "input": lossy(&g.1),
                                       "bytes": bytes_json(&g.1), "v": "?", "kind": "hang"})
                );
                println!("{}", serde_json::json!({"summary": true, "aborted": "hang"}));
                std::process::exit(0);
            }
        });
        Watchdog { state }
    }
    pub fn tick(&self, case: &[u8]) {
        let mut g = self.state.lock().unwrap();
        g.0 = std::time::Instant::now();
        g.1.clear();
        g.1.extend_from_slice(case);
    }
    pub fn stop(&self) {
        self.state.lock().unwrap().2 = true;
    }
}
