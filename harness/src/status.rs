//! C13 / C15 / C16: status model. A device wired as examples/minimal_scpi.rs, driven by
//! TLC-emitted edges (spec -> impl) or by a seeded random driver whose log TLC validates.

use crate::queue::{new_queue, AnyQueue};
use crate::util::*;
use scpi::error::{Error, ErrorQueue, Result};
use scpi::tree::prelude::*;
use scpi::{Branch, Leaf, Root};
use scpi_contrib::ieee488::prelude::*;
use scpi_contrib::scpi1999::prelude::*;
use scpi_contrib::scpi1999::status::{operation, questionable};
use scpi_contrib::{
    ieee488_cls, ieee488_ese, ieee488_esr, ieee488_idn, ieee488_opc, ieee488_rst, ieee488_sre,
    ieee488_stb, ieee488_tst, ieee488_wai, scpi_status, scpi_system,
};
use serde_json::{json, Value};
use std::collections::{HashMap, VecDeque};

pub struct Dev {
    pub esr: u8,
    pub ese: u8,
    pub sre: u8,
    pub operation: EventRegister,
    pub questionable: EventRegister,
    pub errors: Box<dyn AnyQueue>,
    pub tst: i16,
    pub hook_calls: u32,
    pub trigs: u32,
}

impl Dev {
    pub fn new(cap: usize, tst: i16) -> Self {
        Dev {
            esr: 0,
            ese: 0,
            sre: 0,
            operation: EventRegister::default(),
            questionable: EventRegister::default(),
            errors: new_queue(cap),
            tst,
            hook_calls: 0,
            trigs: 0,
        }
    }
    pub fn snapshot(&self) -> Self {
        Dev {
            esr: self.esr,
            ese: self.ese,
            sre: self.sre,
            operation: self.operation,
            questionable: self.questionable,
            errors: self.errors.boxed_clone(),
            tst: self.tst,
            hook_calls: 0,
            trigs: 0,
        }
    }
}

impl Device for Dev {
    fn handle_error(&mut self, err: Error) {
        self.hook_calls += 1;
        self.push_error(err)
    }
}

impl scpi_contrib::ieee488::trg::CommonTrg for Dev {
    fn trig_bus(&mut self) -> Result<()> {
        self.trigs += 1;
        Ok(())
    }
}

impl IEEE4882 for Dev {
    fn stb(&self) -> u8 {
        self.scpi_stb()
    }
    fn sre(&self) -> u8 {
        self.sre
    }
    fn set_sre(&mut self, value: u8) {
        self.sre = value
    }
    fn esr(&self) -> u8 {
        self.esr
    }
    fn set_esr(&mut self, value: u8) {
        self.esr = value
    }
    fn ese(&self) -> u8 {
        self.ese
    }
    fn set_ese(&mut self, value: u8) {
        self.ese = value
    }
    fn tst(&mut self) -> Result<()> {
        if self.tst == 0 {
            Ok(())
        } else {
            Err(mk_error(self.tst as i64, 0))
        }
    }
    fn rst(&mut self) -> Result<()> {
        Ok(())
    }
    fn cls(&mut self) -> Result<()> {
        self.scpi_cls()
    }
    fn opc(&mut self) -> Result<()> {
        self.scpi_opc()
    }
}

impl GetEventRegister<Operation> for Dev {
    fn register(&self) -> &EventRegister {
        &self.operation
    }
    fn register_mut(&mut self) -> &mut EventRegister {
        &mut self.operation
    }
}
impl GetEventRegister<Questionable> for Dev {
    fn register(&self) -> &EventRegister {
        &self.questionable
    }
    fn register_mut(&mut self) -> &mut EventRegister {
        &mut self.questionable
    }
}
impl ErrorQueue for Dev {
    fn push_back_error(&mut self, err: Error) {
        self.errors.q().push_back_error(err)
    }
    fn pop_front_error(&mut self) -> Option<Error> {
        self.errors.q().pop_front_error()
    }
    fn num_errors(&self) -> usize {
        self.errors.contents().len()
    }
    fn clear_errors(&mut self) {
        self.errors.q().clear_errors()
    }
}
impl ScpiDevice for Dev {}

/// A plain IEEE 488.2 device (no SCPI status model): keeps the trait's PROVIDED `stb()`.
pub struct PlainDev {
    pub esr: u8,
    pub ese: u8,
    pub sre: u8,
}
impl Device for PlainDev {
    fn handle_error(&mut self, err: Error) {
        self.esr |= err.esr_mask();
    }
}
impl IEEE4882 for PlainDev {
    fn sre(&self) -> u8 {
        self.sre
    }
    fn set_sre(&mut self, value: u8) {
        self.sre = value
    }
    fn esr(&self) -> u8 {
        self.esr
    }
    fn set_esr(&mut self, value: u8) {
        self.esr = value
    }
    fn ese(&self) -> u8 {
        self.ese
    }
    fn set_ese(&mut self, value: u8) {
        self.ese = value
    }
    fn tst(&mut self) -> Result<()> {
        Ok(())
    }
    fn rst(&mut self) -> Result<()> {
        Ok(())
    }
    fn cls(&mut self) -> Result<()> {
        self.esr = 0;
        Ok(())
    }
    fn opc(&mut self) -> Result<()> {
        self.esr |= 1;
        Ok(())
    }
}
pub const PLAIN_TREE: Node<PlainDev> = Root![ieee488_stb!(), ieee488_ese!(), ieee488_sre!(), ieee488_esr!()];

/// `*STB?` on the plain device for a grid of register values and both values of the message-available flag
fn plain_stb_rows(out: &mut Out) {
    for esr in [0u8, 1, 4, 32, 33, 128, 255] {
        for ese in [0u8, 1, 32, 36, 128, 255] {
            for sre in [0u8, 4, 16, 32, 48, 64, 191, 255] {
                for mav in [false, true] {
                    let mut d = PlainDev { esr, ese, sre };
                    let mut ctx = Context::default();
                    ctx.mav = mav;
                    let mut buf: Vec<u8> = Vec::new();
                    let r = catch(std::panic::AssertUnwindSafe(|| PLAIN_TREE.run(b"*STB?", &mut d, &mut ctx, &mut buf)));
                    let stb: i64 = match r {
                        Ok(Ok(())) => std::str::from_utf8(&buf).ok().and_then(|s| s.trim().parse::<i64>().ok()).unwrap_or(-1),
                        _ => -2,
                    };
                    out.put(&json!({"ev": "plainstb", "esr": esr, "ese": ese, "sre": sre, "mav": mav, "stb": stb,
                                    "same": d.esr == esr && d.ese == ese && d.sre == sre}));
                }
            }
        }
    }
}

/// `FAIL <code>,<ext>`: a handler that raises exactly that error (event and query form).
struct FailCmd;
impl Command<Dev> for FailCmd {
    fn event(&self, _d: &mut Dev, _c: &mut Context, mut p: Parameters) -> Result<()> {
        let code: i16 = p.next_data()?;
        let ext: i16 = p.next_data()?;
        Err(mk_error(code as i64, ext as i64))
    }
    fn query(&self, _d: &mut Dev, _c: &mut Context, mut p: Parameters, _r: ResponseUnit) -> Result<()> {
        let code: i16 = p.next_data()?;
        let ext: i16 = p.next_data()?;
        Err(mk_error(code as i64, ext as i64))
    }
}
/// `NOP` (no parameters) / `NOPQ? <v>` echo.
struct NopCmd;
impl Command<Dev> for NopCmd {
    fn event(&self, _d: &mut Dev, _c: &mut Context, _p: Parameters) -> Result<()> {
        Ok(())
    }
    fn query(&self, _d: &mut Dev, _c: &mut Context, mut p: Parameters, mut r: ResponseUnit) -> Result<()> {
        let v: i32 = p.next_data()?;
        r.data(v).finish()
    }
}
/// `TU8 <u8>`: one required 8-bit parameter.
struct U8Cmd;
impl Command<Dev> for U8Cmd {
    fn event(&self, _d: &mut Dev, _c: &mut Context, mut p: Parameters) -> Result<()> {
        let _v: u8 = p.next_data()?;
        Ok(())
    }
}

pub const TREE: Node<Dev> = Root![
    ieee488_cls!(),
    ieee488_ese!(),
    ieee488_esr!(),
    ieee488_idn!(b"GPA-Robotics", b"T800-101", b"0", b"0"),
    ieee488_opc!(),
    ieee488_rst!(),
    ieee488_sre!(),
    ieee488_stb!(),
    ieee488_tst!(),
    Leaf!(b"*TRG" => &scpi_contrib::ieee488::trg::TrgCommand),
    ieee488_wai!(),
    scpi_status!(),
    scpi_system!(),
    Leaf!(b"FAIL" => &FailCmd),
    Leaf!(b"NOP" => &NopCmd),
    Leaf!(b"NOPQ" => &NopCmd),
    Leaf!(b"TU8" => &U8Cmd),
    Branch!(b"DEEP"; Leaf!(b"NOP" => &NopCmd)),
    // the same registers reached through the documented per-command type aliases (StatOper*Command / StatQues*Command)
    // instead of the scpi_status! macro
    Branch!(b"ALIas";
        Branch!(b"OPERation";
            Leaf!(default b"EVENt" => &operation::StatOperEventCommand::new()),
            Leaf!(b"CONDition" => &operation::StatOperConditionCommand::new()),
            Leaf!(b"ENABle" => &operation::StatOperEnableCommand::new()),
            Leaf!(b"NTRansition" => &operation::StatOperNTransitionCommand::new()),
            Leaf!(b"PTRansition" => &operation::StatOperPTransitionCommand::new())),
        Branch!(b"QUEStionable";
            Leaf!(default b"EVENt" => &questionable::StatQuesEventCommand::new()),
            Leaf!(b"CONDition" => &questionable::StatQuesConditionCommand::new()),
            Leaf!(b"ENABle" => &questionable::StatQuesEnableCommand::new()),
            Leaf!(b"NTRansition" => &questionable::StatQuesNTransitionCommand::new()),
            Leaf!(b"PTRansition" => &questionable::StatQuesPTransitionCommand::new())))
];

fn reg_json(r: &EventRegister, rot: u32) -> Value {
    json!({"cond": unrot(r.condition, rot), "event": unrot(r.event, rot), "enable": unrot(r.enable, rot),
           "ptr": unrot(r.ptr_filter, rot), "ntr": unrot(r.ntr_filter, rot)})
}

pub fn project(d: &Dev, rot: u32) -> Value {
    json!({"esr": d.esr, "ese": d.ese, "sre": d.sre,
           "oper": reg_json(&d.operation, rot), "ques": reg_json(&d.questionable, rot),
           "queue": Value::Array(d.errors.contents().iter().map(err_json).collect())})
}

/// model bit b (0..14) -> real bit (b + rot) mod 15; bit 15 fixed.
pub fn rot(v: i64, k: u32) -> i64 {
    if !(0..=65535).contains(&v) || k == 0 {
        return v;
    }
    let v = v as u32;
    let low = v & 0x7fff;
    let r = ((low << k) | (low >> (15 - k))) & 0x7fff;
    (r | (v & 0x8000)) as i64
}
pub fn unrot(v: u16, k: u32) -> i64 {
    if k == 0 {
        return v as i64;
    }
    let low = (v & 0x7fff) as u32;
    let r = ((low >> k) | (low << (15 - k))) & 0x7fff;
    (r | (v as u32 & 0x8000)) as i64
}

fn regname(r: &str, style: u64) -> &'static str {
    match (r, style % 5) {
        ("OPER", 3) => "ALI:OPER",
        ("OPER", 4) => "ALIas:OPERation",
        (_, 3) => "ALI:QUES",
        (_, 4) => "alias:ques",
        ("OPER", 0) => "STAT:OPER",
        ("OPER", 1) => "STATus:OPERation",
        ("OPER", _) => "stat:oper",
        (_, 0) => "STAT:QUES",
        (_, 1) => "status:questionable",
        (_, _) => "Stat:Ques",
    }
}

fn num(v: i64, style: u64) -> String {
    if v >= 0 && style % 16 == 9 {
        format!("{}.0", v)                      // NR2 / NR3 spellings of the same integer
    } else if v >= 0 && style % 16 == 13 {
        if (style / 16) % 2 == 1 { format!("{}E+0", v) } else { format!("{}E0", v) }   // explicit exponent sign (C15w8-1)
    } else if v > 0 && v % 10 == 0 && style % 16 == 1 {
        if (style / 16) % 2 == 1 { format!("{}E+1", v / 10) } else { format!("{}E1", v / 10) }
    } else if v >= 0 && style % 4 == 3 {
        format!("#H{:X}", v)
    } else if v >= 0 && style % 8 == 5 {
        format!("#B{:b}", v)
    } else {
        format!("{}", v)
    }
}

/// Render one unit as program text. `style` selects spelling variants; 0 is canonical.
pub fn render_unit(u: &Value, style: u64, rotk: u32) -> String {
    let op = u["op"].as_str().unwrap();
    let r = u["r"].as_str().unwrap_or("");
    let v = u["v"].as_i64().unwrap_or(0);
    let rv = rot(v, rotk);
    let rn = regname(r, style);
    match op {
        "cls" => "*CLS".into(),
        "ese" => format!("*ESE {}", num(v, style)),
        "eseq" => "*ESE?".into(),
        "esrq" => if style % 2 == 0 { "*ESR?".into() } else { "*esr?".into() },
        "opc" => "*OPC".into(),
        "opcq" => "*OPC?".into(),
        "rst" => "*RST".into(),
        "wai" => "*WAI".into(),
        "trg" => if style % 2 == 0 { "*TRG".into() } else { "*trg".into() },
        "sre" => format!("*SRE {}", num(v, style)),
        "sreq" => "*SRE?".into(),
        "stbq" => "*STB?".into(),
        "tstq" => "*TST?".into(),
        "evq" => if style % 2 == 0 { format!("{rn}?") } else { format!("{rn}:EVEN?") },
        "condq" => format!("{rn}:COND?"),
        "enab" => format!("{rn}:ENAB {}", num(rv, style)),
        "enabq" => format!("{rn}:ENABle?"),
        "ptr" => format!("{rn}:PTR {}", num(rv, style)),
        "ptrq" => format!("{rn}:PTRansition?"),
        "ntr" => format!("{rn}:NTR {}", num(rv, style)),
        "ntrq" => format!("{rn}:NTR?"),
        "pres" => if style % 2 == 0 { "STAT:PRES".into() } else { "STATus:PRESet".into() },
        "errq" => match style % 3 { 0 => "SYST:ERR?".into(), 1 => "SYST:ERR:NEXT?".into(), _ => "system:error:next?".into() },
        "countq" => "SYST:ERR:COUN?".into(),
        "allq" => "SYST:ERR:ALL?".into(),
        "idnq" => if style % 2 == 0 { "*IDN?".into() } else { "*idn?".into() },
        "versq" => match style % 3 { 0 => "SYST:VERS?".into(), 1 => "SYSTem:VERSion?".into(), _ => "syst:version?".into() },
        "nop" => if style % 2 == 0 { "NOP".into() } else { "DEEP:NOP".into() },
        "nopq" => format!("NOPQ? {}", v),
        "fail" => format!("FAIL {},{}", u["code"], u["ext"]),
        "bad" => match (u["k"].as_str().unwrap(), if u["k"] == "form" { style % 8 } else if u["k"] == "syntax" { style % 5 } else if u["k"] == "undef" { style % 12 } else { style % 3 }) {
            ("syntax", 0) => "NOP $".into(),
            ("syntax", 1) => "NOP 1,,2".into(),
            ("syntax", 2) => "TU8 'abc".into(),
            ("syntax", 3) => "TU8 ,1".into(),
            ("syntax", _) => "NOPQ? , 1".into(),
            ("undef", 0) => "XYZ".into(),
            ("undef", 1) => "STAT:OPER:NOPE?".into(),
            ("undef", 2) => "*XYZ".into(),
            // a valid path with one NON-default level left out is still undefined (and must not pop / clear anything)
            ("undef", 3) => "SYST:ALL?".into(),
            ("undef", 4) => "SYST:COUN?".into(),
            ("undef", 5) => "SYST:NEXT?".into(),
            ("undef", 6) => "STAT:COND?".into(),
            ("undef", 7) => "STAT:ENAB 0".into(),
            ("undef", 8) => "OPER:EVEN?".into(),
            ("undef", 9) => "ERR:ALL?".into(),
            ("undef", 10) => "STAT:OPER:PRES".into(),
            ("undef", _) => "SYST?".into(),
            ("p108", 0) => "NOP 1".into(),
            ("p108", 1) => "*WAI 1".into(),
            ("p108", _) => "TU8 1,2".into(),
            ("p109", 0) => "TU8".into(),
            ("p109", 1) => "*ESE".into(),
            ("p109", _) => "STAT:OPER:ENAB".into(),
            ("type", 0) => "TU8 'str'".into(),
            ("type", 1) => "TU8 (1)".into(),
            ("type", _) => "TU8 #15hello".into(),
            ("range", 0) => "TU8 256".into(),
            ("range", 1) => "TU8 -1".into(),
            ("range", _) => "TU8 1e9".into(),
            ("form", 0) => if style % 16 < 8 { "*CLS?".into() } else { "*TRG?".into() },
            ("form", 1) => "*ESR".into(),
            ("form", 2) => "STAT:PRES?".into(),
            ("form", 3) => "SYST:ERR:COUN".into(),
            ("form", 4) => "*RST?".into(),
            ("form", 5) => "*STB".into(),
            ("form", 6) => "STAT:OPER:COND".into(),
            ("form", _) => "*WAI?".into(),
            (k, _) => panic!("kind {k}"),
        },
        _ => panic!("unknown op {op}"),
    }
}

fn split_top(s: &[u8], sep: u8) -> Vec<Vec<u8>> {
    let mut out = vec![];
    let mut cur = vec![];
    let mut inq = false;
    for &c in s {
        if c == b'"' {
            inq = !inq;
        }
        if c == sep && !inq {
            out.push(std::mem::take(&mut cur));
        } else {
            cur.push(c);
        }
    }
    out.push(cur);
    out
}

fn parse_num(t: &[u8]) -> Option<i64> {
    std::str::from_utf8(t).ok()?.parse::<i64>().ok()
}

fn item_ext(code: i64, text: &[u8]) -> i64 {
    // text must be a quoted string whose content is the error's own message [;extended]
    if text.len() < 2 || text[0] != b'"' || text[text.len() - 1] != b'"' {
        return -1;
    }
    let inner = &text[1..text.len() - 1];
    // inside a string response every embedded double quote is doubled
    let dbl = |s: &[u8]| -> Vec<u8> { s.iter().flat_map(|c| if *c == b'"' { vec![b'"', b'"'] } else { vec![*c] }).collect() };
    let own: Vec<u8> = dbl(if code == 0 { b"No error" } else { mk_error(code, 0).get_message() });
    if inner == &own[..] {
        return 0;
    }
    for (i, x) in EXT.iter().enumerate().skip(1) {
        let mut full = own.to_vec();
        full.push(b';');
        full.extend_from_slice(&dbl(x));
        if inner == &full[..] {
            return i as i64;
        }
    }
    -1
}

/// Decode one response unit into the spec's element records.
fn decode_unit(op: &str, text: &[u8], rotk: u32) -> Value {
    let toks = split_top(text, b',');
    let bad = json!({"code": -99999, "ext": -1});
    if op == "idnq" {
        let want: [&[u8]; 4] = [b"GPA-Robotics", b"T800-101", b"0", b"0"];
        let n = toks.iter().zip(want.iter()).filter(|(a, b)| a.as_slice() == **b).count();
        return json!([{"code": if toks.len() == 4 { n as i64 } else { -1 }, "ext": -9}]);
    }
    if op == "versq" {
        let parts: Vec<&[u8]> = text.split(|c| *c == b'.').collect();
        return Value::Array(parts.iter().map(|p| parse_num(p).map(|n| json!({"code": n, "ext": -9})).unwrap_or(bad.clone())).collect());
    }
    if op == "errq" || op == "allq" {
        if toks.iter().all(|t| parse_num(t).is_some()) && op == "allq" {
            return Value::Array(toks.iter().map(|t| json!({"code": parse_num(t).unwrap(), "ext": -2})).collect());
        }
        if toks.len() % 2 != 0 {
            return json!([bad]);
        }
        let mut out = vec![];
        for p in toks.chunks(2) {
            match parse_num(&p[0]) {
                Some(c) => out.push(json!({"code": c, "ext": item_ext(c, &p[1])})),
                None => out.push(bad.clone()),
            }
        }
        Value::Array(out)
    } else {
        Value::Array(
            toks.iter()
                .map(|t| {
                    parse_num(t)
                        .map(|n| {
                            let regq = matches!(op, "evq" | "condq" | "enabq" | "ptrq" | "ntrq");
                            let n = if regq && (0..=65535).contains(&n) { unrot(n as u16, rotk) } else { n };
                            json!({"code": n, "ext": -9})
                        })
                        .unwrap_or(bad.clone())
                })
                .collect(),
        )
    }
}

pub struct MsgResult {
    pub ret: Value,
    pub resps: Value,
    pub raw: Vec<u8>,
    pub text: String,
    pub hook_calls: u32,
    pub trigs: u32,
}

/// Execute a message (list of units) on the device; decode the response per query unit.
pub fn render_msg(units: &[Value], style: u64, rotk: u32) -> String {
    let mut text = String::new();
    for (i, u) in units.iter().enumerate() {
        let t = render_unit(u, style.wrapping_add(i as u64 * 7), rotk);
        if i > 0 {
            text.push(';');
            if !t.starts_with('*') {
                text.push(':');
            }
        } else if style % 5 == 4 && !t.starts_with('*') {
            text.push(':');
        }
        text.push_str(&t);
    }
    if style % 3 == 1 {
        text.push('\n');
    }
    text
}

/// Execute a message (list of units) on the device; decode the response per query unit.
pub fn run_msg(d: &mut Dev, units: &[Value], mav: bool, style: u64, rotk: u32) -> MsgResult {
    let text = render_msg(units, style, rotk);
    let mut ctx = Context::default();
    ctx.mav = mav;
    let mut buf: Vec<u8> = Vec::new();
    d.hook_calls = 0;
    d.trigs = 0;
    let res = TREE.run(text.as_bytes(), d, &mut ctx, &mut buf);
    let ret = match &res {
        Ok(()) => json!({"code": 0, "ext": 0}),
        Err(e) => err_json(e),
    };
    // decode: one response unit per successfully executed query unit, in order
    let mut resps = vec![];
    let body: &[u8] = if buf.ends_with(b"\n") { &buf[..buf.len() - 1] } else { &buf[..] };
    if !body.is_empty() {
        let parts = split_top(body, b';');
        let qops: Vec<&str> = units
            .iter()
            .map(|u| u["op"].as_str().unwrap())
            .filter(|o| o.ends_with('q'))
            .collect();
        for (i, p) in parts.iter().enumerate() {
            let op = qops.get(i).copied().unwrap_or("?");
            resps.push(decode_unit(op, p, rotk));
        }
    }
    MsgResult { ret, resps: Value::Array(resps), raw: buf, text, hook_calls: d.hook_calls, trigs: d.trigs }
}

/// The same message on a fixed-capacity response buffer (C11 for the mandated commands):
/// returns (error code or 0, bytes written).
fn run_arr<const N: usize>(d: &mut Dev, text: &str, mav: bool) -> (i64, Vec<u8>) {
    let mut ctx = Context::default();
    ctx.mav = mav;
    let mut buf = arrayvec::ArrayVec::<u8, N>::new();
    let res = TREE.run(text.as_bytes(), d, &mut ctx, &mut buf);
    (res.err().map(|e| e.get_code() as i64).unwrap_or(0), buf.to_vec())
}

macro_rules! cap_dispatch {
    ($cap:expr, $d:expr, $text:expr, $mav:expr; $($n:literal)*) => {
        match $cap {
            $($n => Some(run_arr::<$n>($d, $text, $mav)),)*
            _ => None,
        }
    };
}

pub fn run_msg_cap(d: &mut Dev, text: &str, mav: bool, cap: usize) -> Option<(i64, Vec<u8>)> {
    cap_dispatch!(cap, d, text, mav;
        0 1 2 3 4 5 6 7 8 9 10 11 12 13 14 15 16 17 18 19 20 21 22 23 24 25 26 27 28 29 30 31 32
        33 34 35 36 37 38 39 40 41 42 43 44 45 46 47 48 49 50 51 52 53 54 55 56 57 58 59 60 61 62 63 64
        65 66 67 68 69 70 71 72 73 74 75 76 77 78 79 80 81 82 83 84 85 86 87 88 89 90 91 92 93 94 95 96
        97 98 99 100 101 102 103 104 105 106 107 108 109 110 111 112 113 114 115 116 117 118 119 120 121 122 123 124 125 126 127 128)
}

pub fn dev_op(d: &mut Dev, u: &Value, rotk: u32) {
    let v = rot(u["v"].as_i64().unwrap(), rotk) as u16;
    let reg = if u["r"] == "OPER" { &mut d.operation } else { &mut d.questionable };
    match u["op"].as_str().unwrap() {
        "setcond" => reg.set_condition(v),
        "setbits" => reg.set_condition_bits(v),
        "clrbits" => reg.clear_condition_bits(v),
        o => panic!("dev op {o}"),
    }
}

fn is_dev(u: &Value) -> bool {
    matches!(u["op"].as_str().unwrap(), "setcond" | "setbits" | "clrbits")
}

/// Replay TLC-emitted edges with own BFS; alternatives for one (pre, unit, mav) form an outcome set.
pub fn replay_edges(args: &[String]) -> i32 {
    let edges = read_ndjson(&arg_value(args, "--edges").expect("--edges"));
    let rots: Vec<u32> = arg_value(args, "--rots")
        .unwrap_or("0".into())
        .split(',')
        .map(|s| s.parse().unwrap())
        .collect();
    let mut out = Out::new(&arg_value(args, "--out").unwrap_or("-".into()));
    let mut executed = 0u64;
    let mut bad = 0u64;
    let mut unreached = 0u64;
    let mut groups_total = 0u64;
    for &rotk in &rots {
        // group: (cap,tst) -> pre -> (u,mav) -> alternatives
        let mut by_env: HashMap<(i64, i64), HashMap<String, HashMap<String, Vec<&Value>>>> = HashMap::new();
        for e in &edges {
            by_env
                .entry((e["cap"].as_i64().unwrap(), e["tst"].as_i64().unwrap()))
                .or_default()
                .entry(e["pre"].to_string())
                .or_default()
                .entry(format!("{}|{}", e["u"], e["mav"]))
                .or_default()
                .push(e);
        }
        for ((cap, tst), by_pre) in by_env {
            let ngroups: usize = by_pre.values().map(|m| m.len()).sum();
            groups_total += ngroups as u64;
            let mut snaps: HashMap<String, Dev> = HashMap::new();
            let mut work = VecDeque::new();
            let init = Dev::new(cap as usize, tst as i16);
            let k0 = project(&init, rotk).to_string();
            snaps.insert(k0.clone(), init);
            work.push_back(k0);
            let mut done = 0usize;
            while let Some(k) = work.pop_front() {
                let Some(groups) = by_pre.get(&k) else { continue };
                for alts in groups.values() {
                    done += 1;
                    executed += 1;
                    let e0 = alts[0];
                    let mut d = snaps[&k].snapshot();
                    let u = e0["u"].clone();
                    let mav = e0["mav"].as_bool().unwrap();
                    let r = catch(std::panic::AssertUnwindSafe(|| {
                        if is_dev(&u) {
                            dev_op(&mut d, &u, rotk);
                            (json!({"code": 0, "ext": 0}), json!([]), String::new(), d)
                        } else {
                            let m = run_msg(&mut d, std::slice::from_ref(&u), mav, 0, rotk);
                            (m.ret, m.resps, m.text, d)
                        }
                    }));
                    match r {
                        Err(p) => {
                            bad += 1;
                            out.put(&json!({"bad": "panic", "msg": p, "edge": e0, "rot": rotk}));
                        }
                        Ok((ret, resps, text, d)) => {
                            let post = project(&d, rotk);
                            let failed = ret["code"] != 0;
                            let hit = alts.iter().any(|e| {
                                e["ret"] == ret && e["post"] == post && (failed || e["resps"] == resps)
                            });
                            if !hit {
                                bad += 1;
                                out.put(&json!({"bad": "mismatch", "edge": e0, "alts": alts.len(), "rot": rotk, "text": text,
                                                "got": {"ret": ret, "resps": resps, "post": post}}));
                            } else {
                                let pk = post.to_string();
                                if !snaps.contains_key(&pk) {
                                    snaps.insert(pk.clone(), d);
                                    work.push_back(pk);
                                }
                            }
                        }
                    }
                }
            }
            unreached += (ngroups - done) as u64;
        }
    }
    let nontrivial = edges.iter().filter(|e| e["pre"] != e["post"] || e["resps"].as_array().map_or(false, |a| !a.is_empty())).count();
    let samples: Vec<&Value> = [4usize, edges.len() / 3, edges.len() / 2].iter().filter_map(|i| edges.get(*i)).collect();
    out.put(&json!({"summary": true, "edges": edges.len(), "groups": groups_total, "executed": executed,
                    "bad": bad, "unreached": unreached, "nontrivial": nontrivial, "samples": samples}));
    out.finish();
    0
}

/// Seeded random histories. `--mix` biases the op mix towards one property's vocabulary.
pub fn record_trace(args: &[String]) -> i32 {
    let seed = arg_u64(args, "--seed", 1);
    let n = arg_u64(args, "--msgs", 2000);
    let mix = arg_value(args, "--mix").unwrap_or("all".into());
    let mut out = Out::new(&arg_value(args, "--out").unwrap_or("-".into()));
    let mut rng = Rng::new(seed ^ 0x5747);
    if mix == "c16" || mix == "all" {
        plain_stb_rows(&mut out);
    }
    let caps = [0usize, 4, 2, 16];
    let codes: [i64; 20] = [-100, -113, -200, -222, -300, -350, -400, -410, -500, -600, -700, -800, 1, 7, 32767, -32768, -190, -227, -450, -50];
    let mk = |op: &str, r: &str, v: i64, k: &str, c: i64, x: i64| json!({"op": op, "r": r, "v": v, "k": k, "code": c, "ext": x});
    for (ci, &cap) in caps.iter().enumerate() {
        let tst: i16 = if ci % 2 == 0 { 0 } else if ci == 3 { i16::MIN } else { -330 };
        let mut d = Dev::new(cap, tst);
        out.put(&json!({"ev": "reset", "cap": cap, "tst": tst}));
        for it in 0..n {
            let regs = ["OPER", "QUES"];
            let r = *rng.pick(&regs);
            // device-side condition change
            let devp = match mix.as_str() { "c15" => 35, "c16" => 15, "c13" => 3, _ => 18 };
            let in_burst = cap == 0 && (mix == "c13" || mix == "c16") && n >= 600 && (39..310).contains(&it);
            if !in_burst && rng.below(100) < devp {
                let v = rand16(&mut rng);
                let op = *rng.pick(&["setcond", "setcond", "setbits", "clrbits"]);
                let u = mk(op, r, v, "", 0, 0);
                let res = catch(std::panic::AssertUnwindSafe(|| dev_op(&mut d, &u, 0)));
                if let Err(p) = res {
                    out.put(&json!({"ev": "panic", "msg": p, "u": u}));
                    continue;
                }
                out.put(&json!({"ev": "dev", "u": u, "post": project(&d, 0)}));
                continue;
            }
            let nunits = 1 + rng.below(3) as usize;
            let mut units = vec![];
            for _ in 0..nunits {
                let u = gen_unit(&mut rng, &mix, r, &codes, &mk);
                let stop = matches!(u["op"].as_str().unwrap(), "fail" | "bad");
                units.push(u);
                if stop {
                    break;
                }
            }
            // an unbounded queue filled beyond 255 unread items, then counted, read and drained (C13: COUNt? is not an 8-bit number)
            if in_burst {
                units = match it {
                    39 => vec![mk("cls", "", 0, "", 0, 0), mk("sre", "", 4, "", 0, 0)],
                    40..=294 => vec![mk("fail", "", 0, "", codes[(it % 7) as usize], (it % 3) as i64)],      // 255 unread items
                    295 => vec![mk("stbq", "", 0, "", 0, 0), mk("fail", "", 0, "", -113, 0)],                 // ... 256
                    296 => vec![mk("stbq", "", 0, "", 0, 0), mk("countq", "", 0, "", 0, 0)],                  // read with exactly 256 unread
                    297..=299 => vec![mk("fail", "", 0, "", -222, 0)],
                    300 | 303 | 306 => vec![mk("countq", "", 0, "", 0, 0)],
                    301 | 302 | 304 => vec![mk("errq", "", 0, "", 0, 0)],
                    305 => vec![mk("esrq", "", 0, "", 0, 0), mk("countq", "", 0, "", 0, 0)],
                    307 => vec![mk("allq", "", 0, "", 0, 0)],
                    _ => vec![mk("countq", "", 0, "", 0, 0)],
                };
            }
            let mav = rng.chance(1, 2);
            let style = rng.next();
            // C11 for the mandated commands: the same message from the same state on fixed-capacity buffers
            if rng.chance(1, 4) {
                let text = render_msg(&units, style, 0);
                let mut dv = d.snapshot();
                let refr = catch(std::panic::AssertUnwindSafe(|| {
                    let m = run_msg(&mut dv, &units, mav, style, 0);
                    (m.ret["code"].as_i64().unwrap(), m.raw, project(&dv, 0))
                }));
                if let Ok((rcode, rbytes, rpost)) = refr {
                    let len = rbytes.len();
                    if rcode == 0 && len > 0 && len <= 126 {
                        for cap in [len - 1, len, len + 1, rng.below(len as u64) as usize, rng.below(len as u64) as usize] {
                            let mut dc = d.snapshot();
                            let r = catch(std::panic::AssertUnwindSafe(|| {
                                let x = run_msg_cap(&mut dc, &text, mav, cap);
                                (x, project(&dc, 0))
                            }));
                            match r {
                                Err(p) => out.put(&json!({"ev": "panic", "msg": p, "units": units, "cap": cap})),
                                Ok((Some((code, bytes)), post)) => out.put(&json!({"ev": "cap", "cap": cap, "len": len, "code": code,
                                    "same": bytes == rbytes && post == rpost, "within": bytes.len() <= cap, "text": text, "qpost": post["queue"]})),
                                Ok((None, _)) => {}
                            }
                        }
                    }
                }
            }
            let mut d2 = d.snapshot();
            let res = catch(std::panic::AssertUnwindSafe(|| {
                let m = run_msg(&mut d2, &units, mav, style, 0);
                (m, d2)
            }));
            match res {
                Err(p) => out.put(&json!({"ev": "panic", "msg": p, "units": units})),
                Ok((m, nd)) => {
                    d = nd;
                    // bind the observed error into the failing unit (the spec constrains its class)
                    let nresp = m.resps.as_array().unwrap().len();
                    let failed = m.ret["code"] != 0;
                    if failed {
                        // the failing unit is the first one whose response is missing among queries, or simply
                        // the first fail/bad/out-of-range unit: mark every unit that can fail with unspecified code
                        for u in units.iter_mut() {
                            let op = u["op"].as_str().unwrap().to_string();
                            let v = u["v"].as_i64().unwrap();
                            let unspecified = op == "bad"
                                || (matches!(op.as_str(), "ese" | "sre") && !(0..=255).contains(&v))
                                || (matches!(op.as_str(), "enab" | "ptr" | "ntr") && !(0..=65535).contains(&v));
                            if unspecified {
                                u["code"] = m.ret["code"].clone();
                                u["ext"] = m.ret["ext"].clone();
                                break;
                            }
                        }
                    }
                    let _ = nresp;
                    out.put(&json!({"ev": "msg", "units": units, "mav": mav, "ret": m.ret, "resps": m.resps,
                                    "post": project(&d, 0), "text": m.text, "hook": m.hook_calls, "trigs": m.trigs}));
                }
            }
        }
    }
    out.finish();
    0
}

fn rand16(rng: &mut Rng) -> i64 {
    match rng.below(6) {
        0 => 0,
        1 => 0xffff,
        2 => 1 << rng.below(16),
        3 => 0xffff ^ (1 << rng.below(16)),
        _ => rng.below(65536) as i64,
    }
}

fn rand8(rng: &mut Rng) -> i64 {
    match rng.below(8) {
        0 => 0,
        1 => 255,
        2 | 3 => 1 << rng.below(8),
        4 => 256 + rng.below(3) as i64 * 65280,
        5 => -1 - rng.below(2) as i64,
        _ => rng.below(256) as i64,
    }
}

fn gen_unit(
    rng: &mut Rng,
    mix: &str,
    r: &str,
    codes: &[i64],
    mk: &dyn Fn(&str, &str, i64, &str, i64, i64) -> Value,
) -> Value {
    let c15 = ["evq", "condq", "enab", "enabq", "ptr", "ptrq", "ntr", "ntrq", "pres", "cls", "evq", "ptr", "ntr"];
    let c16 = ["idnq", "versq", "cls", "ese", "eseq", "esrq", "opc", "opcq", "rst", "wai", "trg", "sre", "sreq", "stbq", "stbq", "stbq", "tstq", "enab", "errq", "fail", "evq", "pres"];
    let c13 = ["fail", "fail", "bad", "bad", "errq", "errq", "countq", "allq", "esrq", "opc", "opcq", "cls", "nop", "nopq", "ese", "stbq"];
    let all: Vec<&str> = c15.iter().chain(c16.iter()).chain(c13.iter()).copied().collect();
    let op = match mix {
        "c15" => if rng.chance(9, 10) { *rng.pick(&c15) } else { *rng.pick(&all) },
        "c16" => if rng.chance(9, 10) { *rng.pick(&c16) } else { *rng.pick(&all) },
        "c13" => if rng.chance(9, 10) { *rng.pick(&c13) } else { *rng.pick(&all) },
        _ => *rng.pick(&all),
    };
    match op {
        "ese" | "sre" => mk(op, "", rand8(rng), "", 0, 0),
        "enab" | "ptr" | "ntr" => {
            let v = if rng.chance(1, 12) { 65536 + rng.below(5) as i64 * 1000 } else if rng.chance(1, 20) { -1 } else { rand16(rng) };
            mk(op, r, v, "", 0, 0)
        }
        "evq" | "condq" | "enabq" | "ptrq" | "ntrq" => mk(op, r, 0, "", 0, 0),
        "nopq" => mk(op, "", rng.below(1000) as i64 - 500, "", 0, 0),
        "fail" => mk(op, "", 0, "", *rng.pick(codes), rng.below(3) as i64),
        "bad" => mk(op, "", 0, *rng.pick(&["syntax", "undef", "p108", "p109", "type", "range", "form"]), 0, 0),
        _ => mk(op, "", 0, "", 0, 0),
    }
}
