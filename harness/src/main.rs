//! scpi-verif: thin conformance harness binding the TLA+ specifications in /verif/spec to the
//! real scpi / scpi-contrib code. It only drives, projects and compares; every rule lives in
//! the specification.

mod errclass;
mod exec;
mod lex;
mod lists;
mod mnemonic;
mod numeric;
mod queue;
mod resp;
mod status;
mod suffix;
mod util;

#[global_allocator]
static GLOBAL: exec::CountingAlloc = exec::CountingAlloc;

fn main() {
    let args: Vec<String> = std::env::args().skip(1).collect();
    let cmd = args.first().map(|s| s.as_str()).unwrap_or("");
    let rest = &args[1.min(args.len())..];
    let code = match cmd {
        "errclass-rows" => errclass::rows(rest),
        "exec-replay" => exec::replay(rest),
        "lists-replay" => lists::replay(rest),
        "lex-deep" => lex::deep(&args),
        "lex-replay" => lex::replay(rest),
        "mnem-replay" => mnemonic::replay(rest),
        "mnem-rows" => mnemonic::rows(rest),
        "num-rows-c07" => numeric::rows_c07(rest),
        "num-rows-c08" => numeric::rows_c08(rest),
        "num-rows-c17" => numeric::rows_c17(rest),
        "resp-rows-c09" => resp::rows_c09(rest),
        "resp-f32-sweep" => resp::f32_sweep(rest),
        "resp-rows-c20" => resp::rows_c20(rest),
        "queue-edges" => queue::replay_edges(rest),
        "queue-trace" => queue::record_trace(rest),
        "suffix-rows" => suffix::rows(rest),
        "status-edges" => status::replay_edges(rest),
        "status-trace" => status::record_trace(rest),
        _ => {
            eprintln!("unknown command {cmd:?}");
            2
        }
    };
    std::process::exit(code);
}
